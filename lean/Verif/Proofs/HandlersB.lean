import Verif.Proofs.Handlers
/-  GENERATED ONCE by a script, then hand-maintained: one refinement theorem per Go handler. -/
namespace Verif
open Verif.Impl Verif.Spec
set_option maxHeartbeats 400000

theorem h_bbr0 (model : CpuModel) : Refines model .bbr0 := by bb_tac
theorem h_bbr1 (model : CpuModel) : Refines model .bbr1 := by bb_tac
theorem h_bbr2 (model : CpuModel) : Refines model .bbr2 := by bb_tac
theorem h_bbr3 (model : CpuModel) : Refines model .bbr3 := by bb_tac
theorem h_bbr4 (model : CpuModel) : Refines model .bbr4 := by bb_tac
theorem h_bbr5 (model : CpuModel) : Refines model .bbr5 := by bb_tac
theorem h_bbr6 (model : CpuModel) : Refines model .bbr6 := by bb_tac
theorem h_bbr7 (model : CpuModel) : Refines model .bbr7 := by bb_tac
theorem h_bbs0 (model : CpuModel) : Refines model .bbs0 := by bb_tac
theorem h_bbs1 (model : CpuModel) : Refines model .bbs1 := by bb_tac
theorem h_bbs2 (model : CpuModel) : Refines model .bbs2 := by bb_tac
theorem h_bbs3 (model : CpuModel) : Refines model .bbs3 := by bb_tac
theorem h_bbs4 (model : CpuModel) : Refines model .bbs4 := by bb_tac
theorem h_bbs5 (model : CpuModel) : Refines model .bbs5 := by bb_tac
theorem h_bbs6 (model : CpuModel) : Refines model .bbs6 := by bb_tac
theorem h_bbs7 (model : CpuModel) : Refines model .bbs7 := by bb_tac
theorem h_bcc (model : CpuModel) : Refines model .bcc := by br_tac flagC
theorem h_bcs (model : CpuModel) : Refines model .bcs := by br_tac flagC
theorem h_beq (model : CpuModel) : Refines model .beq := by br_tac flagZ
theorem h_bmi (model : CpuModel) : Refines model .bmi := by br_tac flagN
theorem h_bne (model : CpuModel) : Refines model .bne := by br_tac flagZ
theorem h_bpl (model : CpuModel) : Refines model .bpl := by br_tac flagN
theorem h_bra (model : CpuModel) : Refines model .bra := by std
theorem h_bvc (model : CpuModel) : Refines model .bvc := by br_tac flagV
theorem h_bvs (model : CpuModel) : Refines model .bvs := by br_tac flagV
theorem h_jmp (model : CpuModel) : Refines model .jmp := by std
theorem h_jmpIndexXIndirect (model : CpuModel) : Refines model .jmpIndexXIndirect := by std
theorem h_jmpIndirect6502 : Refines .m6502 .jmpIndirect6502 := by std
theorem h_jmpIndirect65C02 : Refines .m65C02 .jmpIndirect65C02 := by std
theorem h_jsr (model : CpuModel) : Refines model .jsr := by std
theorem h_rts (model : CpuModel) : Refines model .rts := by std

end Verif
