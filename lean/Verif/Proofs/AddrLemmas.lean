import Verif.Impl.Cpu
import Verif.Spec.Isa
/-
  Address arithmetic: the machine arithmetic of cpu/adressing.go (BitVec) equals the
  Nat arithmetic mod 2^k of the specification — for every operand, index and PC value.
-/
namespace Verif
open Verif.Impl Verif.Spec

theorem u16_toNat (b : Byte) : (u16 b).toNat = b.toNat := by
  simp [u16]; have := b.isLt; omega

theorem word_lt (lo hi : Byte) : word lo hi < 65536 := by
  unfold word; have := lo.isLt; have := hi.isLt; omega

@[simp] theorem absA_mod (n : Nat) : absA (n % 65536) = absA n := by
  simp [absA]

theorem absA_toNat (n : Nat) : (absA n).toNat = n % 65536 := by
  simp [absA]

theorem mkAddr_eq (hi lo : Byte) : mkAddr hi lo = absA (word lo hi) := by
  apply BitVec.eq_of_toNat_eq
  simp [mkAddr, absA, word, u16] <;> (have := lo.isLt; have := hi.isLt; omega)

theorem absA_add_u16 (n : Nat) (x : Byte) : absA n + u16 x = absA (n + x.toNat) := by
  apply BitVec.eq_of_toNat_eq
  simp [absA, u16]

theorem absA_add_one (n : Nat) : absA n + 1 = absA (n + 1) := by
  apply BitVec.eq_of_toNat_eq
  simp [absA]

theorem u16_eq (b : Byte) : u16 b = zpA b.toNat := by
  apply BitVec.eq_of_toNat_eq
  simp [zpA, u16] <;> (have := b.isLt; omega)

theorem u16_add (b x : Byte) : u16 (b + x) = zpA (b.toNat + x.toNat) := by
  apply BitVec.eq_of_toNat_eq
  simp [zpA, u16] <;> omega

theorem u16_add_one (b : Byte) : u16 (b + 1) = zpA (b.toNat + 1) := by
  apply BitVec.eq_of_toNat_eq
  simp [zpA, u16] <;> omega

theorem u16_add_add_one (b x : Byte) : u16 (b + x + 1) = zpA (b.toNat + x.toNat + 1) := by
  apply BitVec.eq_of_toNat_eq
  simp [zpA, u16] <;> omega

theorem and_FF00 (a : Addr) : a &&& (0xFF00 : Addr) = (a >>> 8) <<< 8 := by
  apply BitVec.eq_of_getLsbD_eq
  intro i hi
  simp only [BitVec.getLsbD_and, BitVec.getLsbD_shiftLeft, BitVec.getLsbD_ushiftRight]
  have h1 : ∀ j : Fin 16, (0xFF00 : Addr).getLsbD j.val = decide (8 ≤ j.val) := by decide
  have h2 := h1 ⟨i, hi⟩
  simp only at h2
  rw [h2]
  by_cases h : 8 ≤ i
  · simp [h, hi] <;> (congr 1; omega)
  · simp [h] <;> omega

theorem shift_eq_iff (a b : Addr) :
    ((a >>> 8) <<< 8 = (b >>> 8) <<< 8) ↔ a.toNat / 256 = b.toNat / 256 := by
  constructor
  · intro h
    have := congrArg BitVec.toNat h
    simp [BitVec.toNat_shiftLeft, BitVec.toNat_ushiftRight, Nat.shiftRight_eq_div_pow, Nat.shiftLeft_eq] at this
    have := a.isLt; have := b.isLt; omega
  · intro h
    apply BitVec.eq_of_toNat_eq
    simp [BitVec.toNat_shiftLeft, BitVec.toNat_ushiftRight, Nat.shiftRight_eq_div_pow, Nat.shiftLeft_eq, h]

/-- `(a & 0xFF00) != (b & 0xFF00)` is "different page", for all 2^32 address pairs -/
theorem pageCross_eq (a b : Addr) :
    pageCrossCycles a b = if pageOf a.toNat != pageOf b.toNat then 1 else 0 := by
  unfold pageCrossCycles pageOf
  rw [and_FF00, and_FF00]
  by_cases h : a.toNat / 256 = b.toNat / 256
  · simp [h, (shift_eq_iff a b).2 h]
  · have : ¬ ((a >>> 8) <<< 8 = (b >>> 8) <<< 8) := fun hh => h ((shift_eq_iff a b).1 hh)
    simp [h, this]

theorem pageCross_absA (m n : Nat) :
    pageCrossCycles (absA m) (absA n) = if pageOf (m % 65536) != pageOf (n % 65536) then 1 else 0 := by
  rw [pageCross_eq, absA_toNat, absA_toNat]

theorem pageCross_comm (a b : Addr) : pageCrossCycles a b = pageCrossCycles b a := by
  rw [pageCross_eq, pageCross_eq, bne_comm]

theorem stack_eq (sp : Byte) : (0x100 : Addr) + u16 sp = stackA sp := by
  apply BitVec.eq_of_toNat_eq
  simp [stackA, u16] <;> (have := sp.isLt; omega)

theorem sub_one_eq (b : Byte) : b - 1 = byteOf (b.toNat + 255) := by
  apply BitVec.eq_of_toNat_eq
  simp [byteOf, BitVec.toNat_sub] <;> omega

theorem add_one_eq (b : Byte) : b + 1 = byteOf (b.toNat + 1) := by
  apply BitVec.eq_of_toNat_eq
  simp [byteOf]

theorem add_FF_eq (b : Byte) : b + 0xFF = byteOf (b.toNat + 255) := by
  apply BitVec.eq_of_toNat_eq
  simp [byteOf]

theorem pc_hi (pc : Addr) : u8 ((pc &&& 0xFF00) >>> 8) = byteOf (pc.toNat / 256) := by
  rw [and_FF00]
  apply BitVec.eq_of_toNat_eq
  simp [u8, byteOf, BitVec.toNat_shiftLeft, BitVec.toNat_ushiftRight, Nat.shiftRight_eq_div_pow, Nat.shiftLeft_eq]
  have := pc.isLt; omega

theorem and_00FF (x : Nat) : x &&& 255 = x % 256 := Nat.and_two_pow_sub_one_eq_mod x 8

theorem pc_lo (pc : Addr) : u8 (pc &&& 0x00FF) = byteOf pc.toNat := by
  apply BitVec.eq_of_toNat_eq
  simp [u8, byteOf, and_00FF]

/-- relative branch target: `uint16(int16(PC+1) + int16(int8(offset)))` is
    (address of the next instruction + signed offset) mod 65536 -/
theorem relTarget_eq (pc : Addr) (off : Byte) :
    Impl.relTarget pc off = absA (Spec.relTarget (pc + 1) off) := by
  apply BitVec.eq_of_toNat_eq
  unfold Impl.relTarget Spec.relTarget
  rw [absA_toNat]
  simp only [BitVec.toNat_add, BitVec.toNat_signExtend, BitVec.toInt_eq_toNat_cond, BitVec.msb_eq_decide,
    BitVec.toNat_setWidth]
  have h1 := off.isLt
  have h2 := pc.isLt
  have h3 : BitVec.toNat (1 : Addr) = 1 := rfl
  rw [h3]
  generalize pc.toNat = P at *
  generalize off.toNat = O at *
  by_cases h : 2 * O < 2 ^ 8
  · have : ¬ (2 ^ (8 - 1) ≤ O) := by omega
    simp only [h, this, decide_false, Bool.false_eq_true, if_true, if_false]
    omega
  · have : (2 ^ (8 - 1) ≤ O) := by omega
    simp only [h, this, decide_true, if_true, if_false]
    omega


theorem relTarget_lt (next : Addr) (off : Byte) : Spec.relTarget next off < 65536 := by
  unfold Spec.relTarget
  omega

end Verif
