import Verif.Proofs.AddrLemmas
/-
  ALU: the bit tricks of the Go code equal the integer semantics of the specification,
  for ALL operand, accumulator and flag values (no enumeration of the 2^24 cases:
  `decide` is only used for single-byte facts).
-/
namespace Verif
open Verif.Impl Verif.Spec

theorem setIf_eq (p f : Byte) (c : Bool) : setIf p f c = setFlag p f c := rfl

theorem bit7 (v : Byte) : ((v &&& 0x80) != 0) = decide (v.toNat ≥ 128) := by
  revert v; decide
theorem bit6 (v : Byte) : ((v &&& 0x40) != 0) = (v.toNat / 64 % 2 == 1) := by
  revert v; decide
theorem bit0 (v : Byte) : ((v &&& 1) != 0) = (v.toNat % 2 == 1) := by
  revert v; decide
theorem beq0 (v : Byte) : (v == 0) = (v.toNat == 0) := by
  revert v; decide

theorem nzFlags_eq (p v : Byte) : nzFlags p v = setNZ p v := by
  simp only [nzFlags, setNZ, setIf_eq, bit7, beq0]

theorem flag_comm_ZC (p : Byte) (a b : Bool) :
    setFlag (setFlag p flagZ a) flagC b = setFlag (setFlag p flagC b) flagZ a := by
  revert p a b; decide
theorem flag_comm_NC (p : Byte) (a b : Bool) :
    setFlag (setFlag p flagN a) flagC b = setFlag (setFlag p flagC b) flagN a := by
  revert p a b; decide
theorem flag_comm_NZ (p : Byte) (a b : Bool) :
    setFlag (setFlag p flagN a) flagZ b = setFlag (setFlag p flagZ b) flagN a := by
  revert p a b; decide

theorem sub_toNat (a m : Byte) : (a - m) = byteOf (a.toNat + 256 - m.toNat) := by
  apply BitVec.eq_of_toNat_eq
  simp [byteOf, BitVec.toNat_sub] <;> omega

theorem cmpBase_eq (p a m : Byte) : cmpBase p a m = Spec.cmp p a m := by
  unfold cmpBase Spec.cmp
  simp only [setIf_eq, bit7, sub_toNat]
  by_cases h : a = m
  · subst h
    have : a.toNat + 256 - a.toNat = 256 := by omega
    simp [this, byteOf, flag_comm_ZC]
  · have hne : a.toNat ≠ m.toNat := fun hh => h (BitVec.eq_of_toNat_eq hh)
    by_cases hgt : a > m
    · have : a.toNat > m.toNat := hgt
      have h3 : a.toNat ≥ m.toNat := by omega
      simp [h, hne, hgt, h3, flag_comm_NZ, flag_comm_NC, flag_comm_ZC]
    · have : ¬ a.toNat > m.toNat := hgt
      have h3 : ¬ a.toNat ≥ m.toNat := by omega
      simp [h, hne, hgt, h3, flag_comm_NZ, flag_comm_NC, flag_comm_ZC]

theorem bitBase_eq (p a v : Byte) : bitBase p a v = Spec.bit false p a v := by
  simp only [bitBase, Spec.bit, setIf_eq, bit7, bit6, beq0]
  simp

theorem flagTest (p f : Byte) : ((p &&& f) != 0) = flagSet p f := rfl
theorem flagTest' (p f : Byte) : ((p &&& f) == 0) = !flagSet p f := by
  unfold flagSet bne
  simp


theorem carry_toNat (p : Byte) : (if (p &&& flagC) != 0 then (1 : Addr) else 0).toNat = carryIn p := by
  unfold carryIn flagSet; split <;> simp

theorem carry8_toNat (p : Byte) : (if (p &&& flagC) != 0 then (1 : Byte) else 0).toNat = carryIn p := by
  unfold carryIn flagSet; split <;> simp

theorem carryIn_le (p : Byte) : carryIn p ≤ 1 := by unfold carryIn; split <;> omega

theorem byteOf_toNat (n : Nat) : (byteOf n).toNat = n % 256 := by simp [byteOf]

theorem msb_test (v : Byte) : ((v &&& 0x80) != 0) = v.msb := by revert v; decide

theorem setNZ_setC (p v : Byte) (b : Bool) : setNZ (setFlag p flagC b) v = setFlag (setNZ p v) flagC b := by
  unfold setNZ
  rw [← flag_comm_ZC, ← flag_comm_NC]

/-- the XOR trick `((a^r) & (m^r) & 0x80) != 0` is signed overflow of a + m + c -/
theorem ovf_add (a m : Byte) (c : Nat) (hc : c ≤ 1) :
    ((((a ^^^ byteOf (a.toNat + m.toNat + c)) &&& (m ^^^ byteOf (a.toNat + m.toNat + c))) &&& 0x80) != 0) =
      decide (a.toInt + m.toInt + (c : Int) < -128 ∨ a.toInt + m.toInt + (c : Int) > 127) := by
  rw [msb_test, BitVec.msb_and, BitVec.msb_xor, BitVec.msb_xor]
  simp only [BitVec.msb_eq_decide, BitVec.toInt_eq_toNat_cond, byteOf, BitVec.toNat_ofNat]
  have := a.isLt; have := m.isLt
  rw [Bool.eq_iff_iff]
  simp
  omega

/-- binary ADC: result byte, carry and overflow, for all a, m, p -/
theorem addBaseBin_eq (p a m : Byte) :
    addBaseBin p a m =
      (byteOf (a.toNat + m.toNat + carryIn p),
       setFlag (setFlag (setNZ p (byteOf (a.toNat + m.toNat + carryIn p))) flagC (decide (a.toNat + m.toNat + carryIn p ≥ 256)))
         flagV (decide (a.toInt + m.toInt + (carryIn p : Int) < -128 ∨ a.toInt + m.toInt + (carryIn p : Int) > 127))) := by
  unfold addBaseBin
  simp only [setIf_eq, nzFlags_eq]
  have hc := carryIn_le p
  have ht : (u16 a + u16 m + (if (p &&& flagC) != 0 then (1 : Addr) else 0)).toNat = a.toNat + m.toNat + carryIn p := by
    rw [BitVec.toNat_add, BitVec.toNat_add, carry_toNat, u16_toNat, u16_toNat]
    have := a.isLt; have := m.isLt; omega
  generalize (u16 a + u16 m + (if (p &&& flagC) != 0 then (1 : Addr) else 0)) = t at *
  have hr : u8 (t &&& 0xFF) = byteOf (a.toNat + m.toNat + carryIn p) := by
    apply BitVec.eq_of_toNat_eq
    simp [u8, byteOf, and_00FF, ht]
  have hC : decide (t ≥ 256) = decide (a.toNat + m.toNat + carryIn p ≥ 256) := by
    have : (t ≥ 256) ↔ t.toNat ≥ 256 := by
      show (256 : Addr).toNat ≤ t.toNat ↔ _
      simp
    simp only [this, ht]
  simp only [hr, hC, ovf_add a m (carryIn p) hc]

theorem xorFF_toNat (m : Byte) : (m ^^^ 0xFF).toNat = 255 - m.toNat := by
  revert m; decide
theorem xorFF_toInt (m : Byte) : (m ^^^ 0xFF).toInt = - m.toInt - 1 := by
  revert m; decide

theorem fromBCD_eq : ∀ i : Byte, fromBCD i = if validBcd i then some (byteOf (bcdVal i)) else none := by
  decide

theorem toBCD_eq : ∀ b : Byte, toBCD b = toBcd (b.toNat % 100) := by
  decide

theorem bcdVal_le (b : Byte) (h : validBcd b = true) : bcdVal b ≤ 99 := by
  unfold validBcd at h; unfold bcdVal
  simp at h
  omega

theorem addBaseBcd_eq (p a m : Byte) (ha : validBcd a = true) (hm : validBcd m = true) :
    addBaseBcd6502 p a m =
      some (toBcd ((bcdVal a + bcdVal m + carryIn p) % 100),
            setFlag (setNZ p (toBcd ((bcdVal a + bcdVal m + carryIn p) % 100))) flagC
              (decide (bcdVal a + bcdVal m + carryIn p ≥ 100))) := by
  unfold addBaseBcd6502 prepBCD
  simp only [fromBCD_eq, ha, hm, if_true, setIf_eq, nzFlags_eq, toBCD_eq]
  have h1 := bcdVal_le a ha
  have h2 := bcdVal_le m hm
  have h3 := carryIn_le p
  have hcr : (byteOf (bcdVal a) + byteOf (bcdVal m) + (if (p &&& flagC) != 0 then (1 : Byte) else 0)).toNat
      = bcdVal a + bcdVal m + carryIn p := by
    rw [BitVec.toNat_add, BitVec.toNat_add, carry8_toNat, byteOf_toNat, byteOf_toNat]
    omega
  generalize (byteOf (bcdVal a) + byteOf (bcdVal m) + (if (p &&& flagC) != 0 then (1 : Byte) else 0)) = cr at *
  have hC : decide (cr ≥ 100) = decide (bcdVal a + bcdVal m + carryIn p ≥ 100) := by
    have : (cr ≥ 100) ↔ cr.toNat ≥ 100 := by
      show (100 : Byte).toNat ≤ cr.toNat ↔ _
      simp
    simp only [this, hcr]
  simp only [hcr, hC]

theorem addBaseBcd_invalid (p a m : Byte) (h : (validBcd a && validBcd m) = false) :
    addBaseBcd6502 p a m = none := by
  unfold addBaseBcd6502 prepBCD
  simp only [fromBCD_eq]
  cases ha : validBcd a <;> cases hm : validBcd m <;> simp_all

theorem subBaseBcd_eq (p a m : Byte) (ha : validBcd a = true) (hm : validBcd m = true) :
    subBaseBcd p a m =
      some (toBcd (((bcdVal a : Int) - (bcdVal m : Int) - (1 - (carryIn p : Int))) % 100).toNat,
            setFlag (setNZ p (toBcd (((bcdVal a : Int) - (bcdVal m : Int) - (1 - (carryIn p : Int))) % 100).toNat)) flagC
              (decide ((bcdVal a : Int) - (bcdVal m : Int) - (1 - (carryIn p : Int)) ≥ 0))) := by
  unfold subBaseBcd prepBCD
  simp only [fromBCD_eq, ha, hm, if_true, setIf_eq, nzFlags_eq, toBCD_eq]
  have h1 := bcdVal_le a ha
  have h2 := bcdVal_le m hm
  have h3 := carryIn_le p
  have hc1 : (1 - (if (p &&& flagC) != 0 then (1 : Byte) else 0)).toNat = 1 - carryIn p := by
    unfold carryIn flagSet; split <;> simp
  have htemp : (u16 (byteOf (bcdVal a)) - u16 (byteOf (bcdVal m)) - u16 (1 - (if (p &&& flagC) != 0 then (1 : Byte) else 0))).toNat
      = ((65536 : Int) + (bcdVal a : Int) - (bcdVal m : Int) - (1 - (carryIn p : Int))).toNat % 65536 := by
    rw [BitVec.toNat_sub, BitVec.toNat_sub, u16_toNat, u16_toNat, u16_toNat, hc1, byteOf_toNat, byteOf_toNat]
    omega
  generalize (u16 (byteOf (bcdVal a)) - u16 (byteOf (bcdVal m)) - u16 (1 - (if (p &&& flagC) != 0 then (1 : Byte) else 0))) = temp at *
  generalize bcdVal a = A at *
  generalize bcdVal m = B at *
  generalize carryIn p = c at *
  have hslt : temp.slt 0 = decide ((A : Int) - (B : Int) - (1 - (c : Int)) < 0) := by
    simp only [BitVec.slt, BitVec.toInt_eq_toNat_cond, htemp]
    simp
    omega
  rw [hslt]
  by_cases hd : (A : Int) - (B : Int) - (1 - (c : Int)) < 0
  · have hd' : ¬ ((A : Int) - (B : Int) - (1 - (c : Int)) ≥ 0) := by omega
    simp only [hd, hd', decide_true, decide_false, if_true]
    have : (u8 (temp + 100)).toNat % 100 = (((A : Int) - (B : Int) - (1 - (c : Int))) % 100).toNat := by
      simp only [u8, BitVec.toNat_setWidth, BitVec.toNat_add, htemp]
      simp
      omega
    simp only [this, setNZ_setC]
  · have hd' : ((A : Int) - (B : Int) - (1 - (c : Int)) ≥ 0) := by omega
    simp only [hd, hd', decide_true, decide_false, Bool.false_eq_true, if_false]
    have : (u8 temp).toNat % 100 = (((A : Int) - (B : Int) - (1 - (c : Int))) % 100).toNat := by
      simp only [u8, BitVec.toNat_setWidth, htemp]
      omega
    simp only [this, setNZ_setC]

theorem subBaseBcd_invalid (p a m : Byte) (h : (validBcd a && validBcd m) = false) :
    subBaseBcd p a m = none := by
  unfold subBaseBcd prepBCD
  simp only [fromBCD_eq]
  cases ha : validBcd a <;> cases hm : validBcd m <;> simp_all

/-- the decimal-mode cycle the 65C02 adds to ADC/SBC -/
def dec65 (model : CpuModel) (p : Byte) : Nat := if model == .m65C02 && flagSet p flagD then 1 else 0

/-- ADC (binary and decimal, both models) is the specification's ADC -/
theorem addBase_eq (model : CpuModel) (p a m : Byte) :
    addBase model p a m = (Spec.adc model p a m).map (fun x => (x.1, x.2.1, dec65 model p)) := by
  unfold addBase Spec.adc dec65
  simp only [flagTest, flagTest']
  by_cases hD : flagSet p flagD = true
  · simp only [hD, Bool.not_true, Bool.false_eq_true, if_false]
    by_cases hv : (validBcd a && validBcd m) = true
    · have ha : validBcd a = true := by simp_all
      have hm : validBcd m = true := by simp_all
      simp only [hv, if_true, addBaseBcd_eq p a m ha hm, Option.map]
    · have hv' : (validBcd a && validBcd m) = false := by simp_all
      simp only [hv', Bool.false_eq_true, if_false, addBaseBcd_invalid p a m hv', Option.map]
  · have hD' : flagSet p flagD = false := by simp_all
    simp only [hD', Bool.not_false, if_true, addBaseBin_eq, Option.map, Bool.and_false, Bool.false_eq_true, if_false]

/-- SBC (binary and decimal, both models) is the specification's SBC -/
theorem subBase_eq (model : CpuModel) (p a m : Byte) :
    subBase model p a m = (Spec.sbc model p a m).map (fun x => (x.1, x.2.1, dec65 model p)) := by
  unfold subBase Spec.sbc dec65
  simp only [flagTest, flagTest']
  by_cases hD : flagSet p flagD = true
  · simp only [hD, Bool.not_true, Bool.false_eq_true, if_false]
    by_cases hv : (validBcd a && validBcd m) = true
    · have ha : validBcd a = true := by simp_all
      have hm : validBcd m = true := by simp_all
      simp only [hv, if_true, subBaseBcd_eq p a m ha hm, Option.map]
    · have hv' : (validBcd a && validBcd m) = false := by simp_all
      simp only [hv', Bool.false_eq_true, if_false, subBaseBcd_invalid p a m hv', Option.map]
  · have hD' : flagSet p flagD = false := by simp_all
    simp only [hD', Bool.not_false, if_true, subBaseBin, addBaseBin_eq, Option.map, Bool.and_false,
      Bool.false_eq_true, if_false, xorFF_toNat, xorFF_toInt]
    have hc := carryIn_le p
    have := a.isLt; have := m.isLt
    have e1 : byteOf (a.toNat + (255 - m.toNat) + carryIn p)
        = byteOf (((a.toNat : Int) - (m.toNat : Int) - (1 - (carryIn p : Int))) % 256).toNat := by
      apply BitVec.eq_of_toNat_eq
      rw [byteOf_toNat, byteOf_toNat]
      omega
    have e2 : decide (a.toNat + (255 - m.toNat) + carryIn p ≥ 256)
        = decide ((a.toNat : Int) - (m.toNat : Int) - (1 - (carryIn p : Int)) ≥ 0) := by
      rw [Bool.eq_iff_iff]; simp; omega
    have e3 : decide (a.toInt + (-m.toInt - 1) + (carryIn p : Int) < -128 ∨ a.toInt + (-m.toInt - 1) + (carryIn p : Int) > 127)
        = decide (a.toInt - m.toInt - (1 - (carryIn p : Int)) < -128 ∨ a.toInt - m.toInt - (1 - (carryIn p : Int)) > 127) := by
      rw [Bool.eq_iff_iff]; simp; omega
    rw [e1, e2, e3]

-- ---------------------------------------------------------------------------------------
-- read-modify-write helpers

theorem rol_val : ∀ (a : Byte) (cb : Bool),
    ((a <<< 1) ||| (if cb then (0x01 : Byte) else 0)) = byteOf (a.toNat * 2 + (if cb then 1 else 0)) := by decide
theorem ror_val : ∀ (a : Byte) (cb : Bool),
    ((a >>> 1) ||| (if cb then (0x80 : Byte) else 0)) = byteOf (a.toNat / 2 + (if cb then 1 else 0) * 128) := by decide
theorem lsr_val : ∀ (a : Byte), (a >>> 1) = byteOf (a.toNat / 2) := by decide
theorem asl_val : ∀ (a : Byte), (a <<< 1) = byteOf (a.toNat * 2) := by decide

theorem carryIn_ite (p : Byte) : carryIn p = if flagSet p flagC then 1 else 0 := rfl

theorem rol_eq (p m : Byte) : Modifier.Rol.apply p m =
    (byteOf (m.toNat * 2 + carryIn p), setFlag p flagC (decide (m.toNat ≥ 128))) := by
  simp only [Modifier.apply, setIf_eq, bit7, rol_val, carryIn, flagSet]; rfl
theorem ror_eq (p m : Byte) : Modifier.Ror.apply p m =
    (byteOf (m.toNat / 2 + carryIn p * 128), setFlag p flagC (m.toNat % 2 == 1)) := by
  simp only [Modifier.apply, setIf_eq, bit0, ror_val, carryIn, flagSet]; rfl
theorem lsr_eq (p m : Byte) : Modifier.Lsr.apply p m =
    (byteOf (m.toNat / 2), setFlag p flagC (m.toNat % 2 == 1)) := by
  simp only [Modifier.apply, setIf_eq, bit0, lsr_val]
theorem asl_eq (p m : Byte) : Modifier.Asl.apply p m =
    (byteOf (m.toNat * 2), setFlag p flagC (decide (m.toNat ≥ 128))) := by
  simp only [Modifier.apply, setIf_eq, bit7, asl_val]
theorem inc_eq (p m : Byte) : Modifier.Inc.apply p m = (byteOf (m.toNat + 1), p) := by
  simp only [Modifier.apply, add_one_eq]
theorem dec_eq (p m : Byte) : Modifier.Dec.apply p m = (byteOf (m.toNat + 255), p) := by
  simp only [Modifier.apply, add_FF_eq]

theorem trbBase_eq (p a v : Byte) : trbBase p a v = (v &&& ~~~a, setFlag p flagZ ((a &&& v).toNat == 0)) := by
  simp only [trbBase, setIf_eq, beq0, BitVec.and_comm]

theorem tsbBase_eq (p a v : Byte) : tsbBase p a v = (v ||| a, setFlag p flagZ ((a &&& v).toNat == 0)) := by
  simp only [tsbBase, setIf_eq, beq0, BitVec.or_comm]

theorem stack_zpA (n : Nat) : (0x100 : Addr) + zpA n = stackA (byteOf n) := by
  apply BitVec.eq_of_toNat_eq
  simp [stackA, zpA, byteOf] <;> omega

theorem byteOf_self (b : Byte) : byteOf b.toNat = b := by
  apply BitVec.eq_of_toNat_eq
  simp [byteOf] <;> (have := b.isLt; omega)

theorem absA_mod_add (n k : Nat) : absA (n % 65536 + k) = absA (n + k) := by
  simp only [absA]; congr 1; omega

theorem setFlag_false (p f : Byte) : setFlag p f false = p &&& ~~~f := rfl
theorem setFlag_true (p f : Byte) : setFlag p f true = p ||| f := rfl

theorem rmb_mask : ∀ n : Fin 8, ((1#8 <<< n.val) ^^^ 0xFF) = ~~~(1#8 <<< n.val) := by decide

end Verif
