import Verif.Proofs.Rel
import Verif.Basic.Bus
/-
  From trees to executions: if the implementation tree refines the specification tree (`Rel`) and the path the
  bus selects stays inside what the specification defines exactly (no `unspecified` leaf, no masked store), then
  running both on the same bus from the same state gives the same bus state and related results.
-/
namespace Verif
namespace SProg

variable {σ α β : Type}

/-- the path selected by the bus is exactly specified -/
def pathExact (bus : Bus σ) (regs : Regs) : SProg β → σ → Bool
  | .ret _, _ => true
  | .fail _, _ => true
  | .unspecified, _ => false
  | .load a k, s =>
    match bus.load s a with
    | (.error _, _) => true
    | (.ok b, s') => pathExact bus regs (k b) s'
  | .store a v m k, s =>
    m == 0 && match bus.store s a v regs with
    | (.error _, _) => true
    | (.ok _, s') => pathExact bus regs k s'

/-- outcomes agree: both end with the same error in the same bus state, or both return and the results are related -/
def LeafOk (R : α → β → Prop) : Except Err (Option α) × σ → Except Err (Option β) × σ → Prop
  | (.ok (some a), s), (.ok (some b), s') => R a b ∧ s = s'
  | (.error e, s), (.error e', s') => e = e' ∧ s = s'
  | _, _ => False

theorem Rel.run (R : α → β → Prop) (bus : Bus σ) (regs : Regs) :
    ∀ (p : SProg α) (q : SProg β) (s : σ), Rel R p q → pathExact bus regs q s = true →
      LeafOk R (p.run bus regs s) (q.run bus regs s) := by
  intro p
  induction p with
  | ret a =>
    intro q s h hx
    cases q <;> simp_all [Rel, SProg.run, pathExact, LeafOk]
  | fail e =>
    intro q s h hx
    cases q <;> simp_all [Rel, SProg.run, pathExact, LeafOk]
  | unspecified =>
    intro q s h hx
    cases q <;> simp_all [Rel, SProg.run, pathExact, LeafOk]
  | load a k ih =>
    intro q s h hx
    cases q with
    | load a' k' =>
      simp only [rel_load_load] at h
      obtain ⟨ha, hk⟩ := h
      subst ha
      simp only [SProg.run, pathExact] at hx ⊢
      cases hl : bus.load s a with
      | mk res s' =>
        rw [hl] at hx
        cases res with
        | error e => simp [LeafOk]
        | ok b => exact ih b (k' b) s' (hk b) hx
    | unspecified => simp [pathExact] at hx
    | ret b => simp [Rel] at h
    | fail e => simp [Rel] at h
    | store a' v' m' k' => simp [Rel] at h
  | store a v m k ih =>
    intro q s h hx
    cases q with
    | store a' v' m' k' =>
      simp only [rel_store_store] at h
      obtain ⟨ha, hv, hk⟩ := h
      subst ha
      simp only [pathExact, Bool.and_eq_true, beq_iff_eq] at hx
      obtain ⟨hm, hx⟩ := hx
      subst hm
      have h255 : ∀ x : Byte, x &&& ~~~(0 : Byte) = x := by decide
      have hv' : v = v' := by rw [h255, h255] at hv; exact hv
      subst hv'
      simp only [SProg.run]
      cases hl : bus.store s a v regs with
      | mk res s' =>
        rw [hl] at hx
        cases res with
        | error e => simp [LeafOk]
        | ok r' => exact ih k' s' hk hx
    | unspecified => simp [pathExact] at hx
    | ret b => simp [Rel] at h
    | fail e => simp [Rel] at h
    | load a' k' => simp [Rel] at h

end SProg

/-- a bus whose stores leave the registers alone and do not look at them (every memory model; not a trap layer) -/
def PlainBus {σ : Type} (bus : Bus σ) : Prop :=
  ∃ f : σ → Addr → Byte → Except Err Unit × σ, ∀ s a v r,
    bus.store s a v r = ((f s a v).1.map (fun _ => r), (f s a v).2)

/-- on a plain bus, running an implementation tree is running its plain image -/
theorem Prog.run_plain {σ α : Type} (bus : Bus σ) (hb : PlainBus bus) (regs : Regs) :
    ∀ (p : Prog α) (s : σ), p.plain.run bus regs s = ((p.run bus s).1.map some, (p.run bus s).2) := by
  obtain ⟨f, hf⟩ := hb
  intro p
  induction p with
  | ret a => intro s; rfl
  | fail e => intro s; rfl
  | load a k ih =>
    intro s
    simp only [Prog.plain, SProg.run, Prog.run]
    cases hl : bus.load s a with
    | mk res s' =>
      cases res with
      | error e => rfl
      | ok b => exact ih b s'
  | store a v r k ih =>
    intro s
    simp only [Prog.plain, SProg.run, Prog.run, hf]
    cases hl : f s a v with
    | mk res s' =>
      cases res with
      | error e => rfl
      | ok u => exact ih r s'

end Verif
