import Verif.Impl.MemOps
/-
  Histories of memory operations: read-your-writes, exact statistics, snapshot/restore —
  by induction over arbitrary finite histories, for every memory model (the theorems are generic in
  the machine kind: the banking state is part of the contents and is resolved at the time of each
  access).
-/
namespace Verif
open Verif.Impl Verif.Spec

theorem loadCell_data (s : MemState) (oc : Option Cell) : (loadCell s oc).2.data = s.data := by
  cases oc <;> rfl
theorem loadCell_snap (s : MemState) (oc : Option Cell) : (loadCell s oc).2.snap = s.snap := by
  cases oc <;> rfl
theorem storeCell_snap (s : MemState) (oc : Option Cell) (b : Byte) : (storeCell s oc b).2.snap = s.snap := by
  cases oc <;> rfl
theorem storeCell_data (s : MemState) (oc : Option Cell) (b : Byte) (c : Cell) :
    (storeCell s oc b).2.data c = match oc with
      | some c' => if c = c' then b else s.data c
      | none => s.data c := by
  cases oc <;> simp [storeCell, upd]
theorem loadCell_stat (s : MemState) (oc : Option Cell) (c : Cell) :
    (loadCell s oc).2.stat c = s.stat c + (if oc = some c then 1 else 0) := by
  cases oc with
  | none => simp [loadCell]
  | some c' =>
    by_cases h : c = c'
    · subst h; simp [loadCell, upd]
    · have : ¬ c' = c := fun hh => h hh.symm
      simp [loadCell, upd, h, this]
theorem storeCell_stat (s : MemState) (oc : Option Cell) (b : Byte) (c : Cell) :
    (storeCell s oc b).2.stat c = s.stat c + (if oc = some c then 1 else 0) := by
  cases oc with
  | none => simp [storeCell]
  | some c' =>
    by_cases h : c = c'
    · subst h; simp [storeCell, upd]
    · have : ¬ c' = c := fun hh => h hh.symm
      simp [storeCell, upd, h, this]

/-- what one operation does to contents, counters and snapshot, in terms of the cell it resolves to -/
theorem applyOp_data (cfg : MemCfg) (s : MemState) (op : MemOp) (hop : op ≠ .restore) (c : Cell) :
    (applyOp cfg s op).data c =
      match op.cell cfg s, op.written with
      | some c', some v => if c = c' then v else s.data c
      | _, _ => s.data c := by
  cases op with
  | load a => simp only [applyOp, load, loadCell_data, MemOp.written]; split <;> simp_all
  | loadL a => simp only [applyOp, loadLarge, loadCell_data, MemOp.written]; split <;> simp_all
  | store a v =>
    simp only [applyOp, store, storeCell_data, MemOp.cell, MemOp.written]
    cases calcIndex cfg.kind s.data a <;> rfl
  | storeL a v =>
    simp only [applyOp, storeLarge, storeCell_data, MemOp.cell, MemOp.written]
    cases calcLongIndex cfg.kind s.data a <;> rfl
  | stat a => simp only [applyOp, MemOp.written]; split <;> simp_all
  | statL a => simp only [applyOp, MemOp.written]; split <;> simp_all
  | clear => simp only [applyOp, clearStatistics, MemOp.written]; split <;> simp_all
  | snap => simp only [applyOp, takeSnapshot, MemOp.written]; split <;> simp_all
  | restore => exact absurd rfl hop

theorem applyOp_stat (cfg : MemCfg) (s : MemState) (op : MemOp) (hop : op ≠ .clear) (c : Cell) :
    (applyOp cfg s op).stat c = s.stat c + (if op.cell cfg s = some c then 1 else 0) := by
  cases op with
  | load a => simp only [applyOp, load, loadCell_stat, MemOp.cell]; congr
  | loadL a => simp only [applyOp, loadLarge, loadCell_stat, MemOp.cell]; congr
  | store a v => simp only [applyOp, store, storeCell_stat, MemOp.cell]; congr
  | storeL a v => simp only [applyOp, storeLarge, storeCell_stat, MemOp.cell]; congr
  | stat a => simp [applyOp, MemOp.cell]
  | statL a => simp [applyOp, MemOp.cell]
  | clear => exact absurd rfl hop
  | snap => simp [applyOp, takeSnapshot, MemOp.cell]
  | restore => simp [applyOp, restoreSnapshot, MemOp.cell]

theorem applyOp_snap (cfg : MemCfg) (s : MemState) (op : MemOp) (hop : op ≠ .snap) :
    (applyOp cfg s op).snap = s.snap := by
  cases op with
  | load a => simp only [applyOp, load, loadCell_snap]
  | loadL a => simp only [applyOp, loadLarge, loadCell_snap]
  | store a v => simp only [applyOp, store, storeCell_snap]
  | storeL a v => simp only [applyOp, storeLarge, storeCell_snap]
  | stat a => rfl
  | statL a => rfl
  | clear => rfl
  | snap => exact absurd rfl hop
  | restore => rfl

-- ---------------------------------------------------------------------------------------
-- read-your-writes

/-- the value the last successful store of a history put into cell `c`, resolving every address
    under the banking state at the time of that store -/
def lastWrite (cfg : MemCfg) (c : Cell) : MemState → List MemOp → Option Byte
  | _, [] => none
  | s, op :: rest =>
    match lastWrite cfg c (applyOp cfg s op) rest with
    | some v => some v
    | none => if op.cell cfg s = some c then op.written else none

theorem ryw (cfg : MemCfg) (c : Cell) : ∀ (h : List MemOp) (s : MemState), (∀ op ∈ h, op ≠ .restore) →
    (runOps cfg s h).data c = (lastWrite cfg c s h).getD (s.data c) := by
  intro h
  induction h with
  | nil => intro s _; rfl
  | cons op rest ih =>
    intro s hno
    have h1 : op ≠ .restore := hno op (by simp)
    have h2 : ∀ o ∈ rest, o ≠ .restore := fun o ho => hno o (by simp [ho])
    simp only [runOps, List.foldl] at ih ⊢
    rw [ih (applyOp cfg s op) h2]
    simp only [lastWrite]
    cases hl : lastWrite cfg c (applyOp cfg s op) rest with
    | some v => simp
    | none =>
      simp only [Option.getD]
      rw [applyOp_data cfg s op h1 c]
      cases hc : op.cell cfg s with
      | none => simp
      | some c' =>
        cases hw : op.written with
        | none => simp
        | some v =>
          by_cases hcc : c = c'
          · subst hcc; simp
          · have : ¬ (some c' = some c) := fun h => hcc (Option.some.inj h).symm
            simp [hcc, this]

-- ---------------------------------------------------------------------------------------
-- statistics

/-- number of accesses (loads and stores through either view) of a history that resolved to `c`,
    each resolved under the banking state at its own time; `none` before... counted since the last clear -/
def countSinceClear (cfg : MemCfg) (c : Cell) : MemState → List MemOp → Nat × Bool
  | _, [] => (0, false)
  | s, op :: rest =>
    let r := countSinceClear cfg c (applyOp cfg s op) rest
    if r.2 = true then (r.1, true)
    else if op = .clear then (r.1, true)
    else (r.1 + (if op.cell cfg s = some c then 1 else 0), false)

/-- C06 core: the counter of a cell after any history = (0 if the history contains a clear, else the
    counter before) + the number of accesses since the last clear that resolved to this cell -/
theorem stat_count (cfg : MemCfg) (c : Cell) (hc : c.1 ∈ cfg.cleared) : ∀ (h : List MemOp) (s : MemState),
    (runOps cfg s h).stat c =
      (if (countSinceClear cfg c s h).2 = true then 0 else s.stat c) + (countSinceClear cfg c s h).1 := by
  intro h
  induction h with
  | nil => intro s; simp [runOps, countSinceClear]
  | cons op rest ih =>
    intro s
    simp only [runOps, List.foldl] at ih ⊢
    rw [ih (applyOp cfg s op)]
    simp only [countSinceClear]
    by_cases hcl : (countSinceClear cfg c (applyOp cfg s op) rest).2 = true
    · simp [hcl]
    · by_cases hop : op = .clear
      · subst hop
        simp [hcl, applyOp, clearStatistics, hc]
      · simp only [hcl, hop, if_false]
        rw [applyOp_stat cfg s op hop c]
        simp
        omega

-- ---------------------------------------------------------------------------------------
-- snapshot / restore

theorem snap_kept (cfg : MemCfg) : ∀ (h : List MemOp) (s : MemState), (∀ op ∈ h, op ≠ .snap) →
    (runOps cfg s h).snap = s.snap := by
  intro h
  induction h with
  | nil => intro s _; rfl
  | cons op rest ih =>
    intro s hno
    simp only [runOps, List.foldl] at ih ⊢
    rw [ih _ (fun o ho => hno o (by simp [ho])), applyOp_snap cfg s op (hno op (by simp))]

end Verif
