import Verif.Proofs.Rel
import Verif.Proofs.AluLemmas
/-
  Per-handler refinement: for every Go handler registered in the opcode table, the tree of
  bus accesses it makes, the registers it leaves and the cycles it reports are those of the
  specification of the (mnemonic, addressing mode) it is registered for — for every register
  state and for every byte the bus may return.
-/
namespace Verif
open Verif.Impl Verif.Spec

/-- registers equal, P compared outside `mask` -/
def RegsEqMod (mask : Byte) (a b : Regs) : Prop :=
  a.pc = b.pc ∧ a.sp = b.sp ∧ a.a = b.a ∧ a.x = b.x ∧ a.y = b.y ∧ a.p &&& ~~~mask = b.p &&& ~~~mask

/-- leaf relation of the refinement: same cycles, same halt flag, registers equal outside the
    specification's don't-care mask -/
def LeafRel (i : StepOut × Regs) (s : Spec.Out × Regs) : Prop :=
  i.1.cycles = s.1.cycles ∧ i.1.halt = s.1.halt ∧ RegsEqMod s.1.pmask i.2 s.2

/-- the same for symbolic handler results: the cycle expression is evaluated at the expected
    literals (`expectedConsts`); registers, halt flag and the tree itself do not depend on them -/
def LeafRelS (i : StepOutS × Regs) (s : Spec.Out × Regs) : Prop :=
  i.1.cycles expectedConsts = s.1.cycles ∧ i.1.halt = s.1.halt ∧ RegsEqMod s.1.pmask i.2 s.2

/-- the data-sheet line each Go handler is meant to implement (hand-maintained bridge between
    the regenerated opcode table and `Spec.decode`; checked by `dispatch_ok`) -/
def specOf : H → Spec.Instr
  | .addAbsolute => ⟨.ADC, .abs, 4, false⟩
  | .addAbsoluteX => ⟨.ADC, .absx, 4, true⟩
  | .addAbsoluteY => ⟨.ADC, .absy, 4, true⟩
  | .addIdxXIndirect => ⟨.ADC, .indx, 6, false⟩
  | .addImmediate => ⟨.ADC, .imm, 2, false⟩
  | .addIndirect => ⟨.ADC, .zpind, 5, false⟩
  | .addIndirectIdxY => ⟨.ADC, .indy, 5, true⟩
  | .addZeroPage => ⟨.ADC, .zp, 3, false⟩
  | .addZeroPageX => ⟨.ADC, .zpx, 4, false⟩
  | .andAbsolute => ⟨.AND, .abs, 4, false⟩
  | .andAbsoluteX => ⟨.AND, .absx, 4, true⟩
  | .andAbsoluteY => ⟨.AND, .absy, 4, true⟩
  | .andIdxIndirect => ⟨.AND, .indx, 6, false⟩
  | .andImmediate => ⟨.AND, .imm, 2, false⟩
  | .andIndirect => ⟨.AND, .zpind, 5, false⟩
  | .andIndirectIdxY => ⟨.AND, .indy, 5, true⟩
  | .andZeroPage => ⟨.AND, .zp, 3, false⟩
  | .andZeroPageX => ⟨.AND, .zpx, 4, false⟩
  | .asl => ⟨.ASL, .acc, 2, false⟩
  | .aslAbsolute => ⟨.ASL, .abs, 6, false⟩
  | .aslAbsoluteX => ⟨.ASL, .absx, 7, false⟩
  | .aslAbsoluteX65C02 => ⟨.ASL, .absx, 6, true⟩
  | .aslZeroPage => ⟨.ASL, .zp, 5, false⟩
  | .aslZeroPageX => ⟨.ASL, .zpx, 6, false⟩
  | .bbr0 => ⟨.BBR 0, .zprel, 5, false⟩
  | .bbr1 => ⟨.BBR 1, .zprel, 5, false⟩
  | .bbr2 => ⟨.BBR 2, .zprel, 5, false⟩
  | .bbr3 => ⟨.BBR 3, .zprel, 5, false⟩
  | .bbr4 => ⟨.BBR 4, .zprel, 5, false⟩
  | .bbr5 => ⟨.BBR 5, .zprel, 5, false⟩
  | .bbr6 => ⟨.BBR 6, .zprel, 5, false⟩
  | .bbr7 => ⟨.BBR 7, .zprel, 5, false⟩
  | .bbs0 => ⟨.BBS 0, .zprel, 5, false⟩
  | .bbs1 => ⟨.BBS 1, .zprel, 5, false⟩
  | .bbs2 => ⟨.BBS 2, .zprel, 5, false⟩
  | .bbs3 => ⟨.BBS 3, .zprel, 5, false⟩
  | .bbs4 => ⟨.BBS 4, .zprel, 5, false⟩
  | .bbs5 => ⟨.BBS 5, .zprel, 5, false⟩
  | .bbs6 => ⟨.BBS 6, .zprel, 5, false⟩
  | .bbs7 => ⟨.BBS 7, .zprel, 5, false⟩
  | .bcc => ⟨.BCC, .rel, 2, false⟩
  | .bcs => ⟨.BCS, .rel, 2, false⟩
  | .beq => ⟨.BEQ, .rel, 2, false⟩
  | .bitAbsolute => ⟨.BIT, .abs, 4, false⟩
  | .bitAbsoluteX => ⟨.BIT, .absx, 4, true⟩
  | .bitImmediate => ⟨.BIT, .imm, 2, false⟩
  | .bitZeroPage => ⟨.BIT, .zp, 3, false⟩
  | .bitZeroPageX => ⟨.BIT, .zpx, 4, false⟩
  | .bmi => ⟨.BMI, .rel, 2, false⟩
  | .bne => ⟨.BNE, .rel, 2, false⟩
  | .bpl => ⟨.BPL, .rel, 2, false⟩
  | .bra => ⟨.BRA, .rel, 3, false⟩
  | .bvc => ⟨.BVC, .rel, 2, false⟩
  | .bvs => ⟨.BVS, .rel, 2, false⟩
  | .clc => ⟨.CLC, .imp, 2, false⟩
  | .cld => ⟨.CLD, .imp, 2, false⟩
  | .cli => ⟨.CLI, .imp, 2, false⟩
  | .clv => ⟨.CLV, .imp, 2, false⟩
  | .cmpAbsolute => ⟨.CMP, .abs, 4, false⟩
  | .cmpAbsoluteX => ⟨.CMP, .absx, 4, true⟩
  | .cmpAbsoluteY => ⟨.CMP, .absy, 4, true⟩
  | .cmpIdxXIndirect => ⟨.CMP, .indx, 6, false⟩
  | .cmpImmediate => ⟨.CMP, .imm, 2, false⟩
  | .cmpIndIdxY => ⟨.CMP, .indy, 5, true⟩
  | .cmpIndirect => ⟨.CMP, .zpind, 5, false⟩
  | .cmpZeroPage => ⟨.CMP, .zp, 3, false⟩
  | .cmpZeroPageX => ⟨.CMP, .zpx, 4, false⟩
  | .cpxAbsolute => ⟨.CPX, .abs, 4, false⟩
  | .cpxImmediate => ⟨.CPX, .imm, 2, false⟩
  | .cpxZeroPage => ⟨.CPX, .zp, 3, false⟩
  | .cpyAbsolute => ⟨.CPY, .abs, 4, false⟩
  | .cpyImmediate => ⟨.CPY, .imm, 2, false⟩
  | .cpyZeroPage => ⟨.CPY, .zp, 3, false⟩
  | .dec65C02 => ⟨.DEC, .acc, 2, false⟩
  | .decAbsolute => ⟨.DEC, .abs, 6, false⟩
  | .decAbsoluteX => ⟨.DEC, .absx, 7, false⟩
  | .decZeroPage => ⟨.DEC, .zp, 5, false⟩
  | .decZeroPageX => ⟨.DEC, .zpx, 6, false⟩
  | .dex => ⟨.DEX, .imp, 2, false⟩
  | .dey => ⟨.DEY, .imp, 2, false⟩
  | .eorAbsolute => ⟨.EOR, .abs, 4, false⟩
  | .eorAbsoluteX => ⟨.EOR, .absx, 4, true⟩
  | .eorAbsoluteY => ⟨.EOR, .absy, 4, true⟩
  | .eorIdxIndirect => ⟨.EOR, .indx, 6, false⟩
  | .eorImmediate => ⟨.EOR, .imm, 2, false⟩
  | .eorIndirect => ⟨.EOR, .zpind, 5, false⟩
  | .eorIndirectIdxY => ⟨.EOR, .indy, 5, true⟩
  | .eorZeroPage => ⟨.EOR, .zp, 3, false⟩
  | .eorZeroPageX => ⟨.EOR, .zpx, 4, false⟩
  | .inc65C02 => ⟨.INC, .acc, 2, false⟩
  | .incAbsolute => ⟨.INC, .abs, 6, false⟩
  | .incAbsoluteX => ⟨.INC, .absx, 7, false⟩
  | .incZeroPage => ⟨.INC, .zp, 5, false⟩
  | .incZeroPageX => ⟨.INC, .zpx, 6, false⟩
  | .inx => ⟨.INX, .imp, 2, false⟩
  | .iny => ⟨.INY, .imp, 2, false⟩
  | .jmp => ⟨.JMP, .abs, 3, false⟩
  | .jmpIndexXIndirect => ⟨.JMP, .absindx, 6, false⟩
  | .jmpIndirect6502 => ⟨.JMP, .ind, 5, false⟩
  | .jmpIndirect65C02 => ⟨.JMP, .ind, 6, false⟩
  | .jsr => ⟨.JSR, .abs, 6, false⟩
  | .ldaAbsolute => ⟨.LDA, .abs, 4, false⟩
  | .ldaAbsoluteX => ⟨.LDA, .absx, 4, true⟩
  | .ldaAbsoluteY => ⟨.LDA, .absy, 4, true⟩
  | .ldaIdxIndirectX => ⟨.LDA, .indx, 6, false⟩
  | .ldaImmediate => ⟨.LDA, .imm, 2, false⟩
  | .ldaIndIdxY => ⟨.LDA, .indy, 5, true⟩
  | .ldaIndirect => ⟨.LDA, .zpind, 5, false⟩
  | .ldaZeroPage => ⟨.LDA, .zp, 3, false⟩
  | .ldaZeroPageIdxX => ⟨.LDA, .zpx, 4, false⟩
  | .ldxAbsolute => ⟨.LDX, .abs, 4, false⟩
  | .ldxAbsoluteY => ⟨.LDX, .absy, 4, true⟩
  | .ldxImmediate => ⟨.LDX, .imm, 2, false⟩
  | .ldxZeroPage => ⟨.LDX, .zp, 3, false⟩
  | .ldxZeroPageIdxY => ⟨.LDX, .zpy, 4, false⟩
  | .ldyAbsolute => ⟨.LDY, .abs, 4, false⟩
  | .ldyAbsoluteX => ⟨.LDY, .absx, 4, true⟩
  | .ldyImmediate => ⟨.LDY, .imm, 2, false⟩
  | .ldyZeroPage => ⟨.LDY, .zp, 3, false⟩
  | .ldyZeroPageIdxX => ⟨.LDY, .zpx, 4, false⟩
  | .lit2false => ⟨.NOP, .imp, 2, false⟩
  | .lit7true => ⟨.BRK, .imp, 7, false⟩
  | .lsr => ⟨.LSR, .acc, 2, false⟩
  | .lsrAbsolute => ⟨.LSR, .abs, 6, false⟩
  | .lsrAbsoluteX => ⟨.LSR, .absx, 7, false⟩
  | .lsrAbsoluteX65C02 => ⟨.LSR, .absx, 6, true⟩
  | .lsrZeroPage => ⟨.LSR, .zp, 5, false⟩
  | .lsrZeroPageX => ⟨.LSR, .zpx, 6, false⟩
  | .oraAbsolute => ⟨.ORA, .abs, 4, false⟩
  | .oraAbsoluteX => ⟨.ORA, .absx, 4, true⟩
  | .oraAbsoluteY => ⟨.ORA, .absy, 4, true⟩
  | .oraIdxIndirect => ⟨.ORA, .indx, 6, false⟩
  | .oraImmediate => ⟨.ORA, .imm, 2, false⟩
  | .oraIndirect => ⟨.ORA, .zpind, 5, false⟩
  | .oraIndirectIdxY => ⟨.ORA, .indy, 5, true⟩
  | .oraZeroPage => ⟨.ORA, .zp, 3, false⟩
  | .oraZeroPageX => ⟨.ORA, .zpx, 4, false⟩
  | .pha => ⟨.PHA, .imp, 3, false⟩
  | .php => ⟨.PHP, .imp, 3, false⟩
  | .phx => ⟨.PHX, .imp, 3, false⟩
  | .phy => ⟨.PHY, .imp, 3, false⟩
  | .pla => ⟨.PLA, .imp, 4, false⟩
  | .plp => ⟨.PLP, .imp, 4, false⟩
  | .plx => ⟨.PLX, .imp, 4, false⟩
  | .ply => ⟨.PLY, .imp, 4, false⟩
  | .rmb0 => ⟨.RMB 0, .zp, 5, false⟩
  | .rmb1 => ⟨.RMB 1, .zp, 5, false⟩
  | .rmb2 => ⟨.RMB 2, .zp, 5, false⟩
  | .rmb3 => ⟨.RMB 3, .zp, 5, false⟩
  | .rmb4 => ⟨.RMB 4, .zp, 5, false⟩
  | .rmb5 => ⟨.RMB 5, .zp, 5, false⟩
  | .rmb6 => ⟨.RMB 6, .zp, 5, false⟩
  | .rmb7 => ⟨.RMB 7, .zp, 5, false⟩
  | .rol => ⟨.ROL, .acc, 2, false⟩
  | .rolAbsolute => ⟨.ROL, .abs, 6, false⟩
  | .rolAbsoluteX => ⟨.ROL, .absx, 7, false⟩
  | .rolAbsoluteX65C02 => ⟨.ROL, .absx, 6, true⟩
  | .rolZeroPage => ⟨.ROL, .zp, 5, false⟩
  | .rolZeroPageX => ⟨.ROL, .zpx, 6, false⟩
  | .ror => ⟨.ROR, .acc, 2, false⟩
  | .rorAbsolute => ⟨.ROR, .abs, 6, false⟩
  | .rorAbsoluteX => ⟨.ROR, .absx, 7, false⟩
  | .rorAbsoluteX65C02 => ⟨.ROR, .absx, 6, true⟩
  | .rorZeroPage => ⟨.ROR, .zp, 5, false⟩
  | .rorZeroPageX => ⟨.ROR, .zpx, 6, false⟩
  | .rts => ⟨.RTS, .imp, 6, false⟩
  | .sec => ⟨.SEC, .imp, 2, false⟩
  | .sed => ⟨.SED, .imp, 2, false⟩
  | .sei => ⟨.SEI, .imp, 2, false⟩
  | .smb0 => ⟨.SMB 0, .zp, 5, false⟩
  | .smb1 => ⟨.SMB 1, .zp, 5, false⟩
  | .smb2 => ⟨.SMB 2, .zp, 5, false⟩
  | .smb3 => ⟨.SMB 3, .zp, 5, false⟩
  | .smb4 => ⟨.SMB 4, .zp, 5, false⟩
  | .smb5 => ⟨.SMB 5, .zp, 5, false⟩
  | .smb6 => ⟨.SMB 6, .zp, 5, false⟩
  | .smb7 => ⟨.SMB 7, .zp, 5, false⟩
  | .staAbsolute => ⟨.STA, .abs, 4, false⟩
  | .staAbsoluteX => ⟨.STA, .absx, 5, false⟩
  | .staAbsoluteY => ⟨.STA, .absy, 5, false⟩
  | .staIndirect => ⟨.STA, .zpind, 5, false⟩
  | .staIndirectY => ⟨.STA, .indy, 6, false⟩
  | .staXIndirect => ⟨.STA, .indx, 6, false⟩
  | .staZeroPage => ⟨.STA, .zp, 3, false⟩
  | .staZeroPageX => ⟨.STA, .zpx, 4, false⟩
  | .stxAbsolute => ⟨.STX, .abs, 4, false⟩
  | .stxZeroPage => ⟨.STX, .zp, 3, false⟩
  | .stxZeroPageY => ⟨.STX, .zpy, 4, false⟩
  | .styAbsolute => ⟨.STY, .abs, 4, false⟩
  | .styZeroPage => ⟨.STY, .zp, 3, false⟩
  | .styZeroPageX => ⟨.STY, .zpx, 4, false⟩
  | .stzAbsolute => ⟨.STZ, .abs, 4, false⟩
  | .stzAbsoluteX => ⟨.STZ, .absx, 5, false⟩
  | .stzZeroPage => ⟨.STZ, .zp, 3, false⟩
  | .stzZeroPageX => ⟨.STZ, .zpx, 4, false⟩
  | .subAbsolute => ⟨.SBC, .abs, 4, false⟩
  | .subAbsoluteX => ⟨.SBC, .absx, 4, true⟩
  | .subAbsoluteY => ⟨.SBC, .absy, 4, true⟩
  | .subIdxXIndirect => ⟨.SBC, .indx, 6, false⟩
  | .subImmediate => ⟨.SBC, .imm, 2, false⟩
  | .subIndirect => ⟨.SBC, .zpind, 5, false⟩
  | .subIndirectIdxY => ⟨.SBC, .indy, 5, true⟩
  | .subZeroPage => ⟨.SBC, .zp, 3, false⟩
  | .subZeroPageX => ⟨.SBC, .zpx, 4, false⟩
  | .tax => ⟨.TAX, .imp, 2, false⟩
  | .tay => ⟨.TAY, .imp, 2, false⟩
  | .trbAbsolute => ⟨.TRB, .abs, 6, false⟩
  | .trbZeroPage => ⟨.TRB, .zp, 5, false⟩
  | .tsbAbsolute => ⟨.TSB, .abs, 6, false⟩
  | .tsbZeroPage => ⟨.TSB, .zp, 5, false⟩
  | .tsx => ⟨.TSX, .imp, 2, false⟩
  | .txa => ⟨.TXA, .imp, 2, false⟩
  | .txs => ⟨.TXS, .imp, 2, false⟩
  | .tya => ⟨.TYA, .imp, 2, false⟩
  | .other => ⟨.BRK, .rel, 0, false⟩   -- no data-sheet line: never equal to a decoded instruction

@[simp] theorem zpA_mod (n : Nat) : zpA (n % 256) = zpA n := by simp [zpA]
@[simp] theorem zpA_mod_add (n k : Nat) : zpA (n % 256 + k) = zpA (n + k) := by
  simp only [zpA]; congr 1; omega

theorem pageCross_swap (n k : Nat) :
    pageCrossCycles (absA (n + k)) (absA n) = pageCrossCycles (absA n) (absA (n + k)) := pageCross_comm _ _

macro "unfoldM" : tactic => `(tactic|
  simp only [plainM, ld, st, sld, sst, failM, sfail, sunspec, bind, StateT.bind, get, getThe, MonadStateOf.get, StateT.get,
    set, MonadStateOf.set, StateT.set, modify, modifyGet, MonadStateOf.modifyGet, StateT.modifyGet, pure, StateT.pure,
    Prog.bind, SProg.bind, Prog.plain, incPC, setPC, setP])

macro "lemmas" : tactic => `(tactic|
  ((try simp only [mkAddr_eq, absA_add_u16, absA_add_one, u16_add_add_one, u16_add_one, u16_add, pc_hi, pc_lo,
    relTarget_eq, nzFlags_eq, cmpBase_eq, bitBase_eq, pageCross_swap, rol_eq, ror_eq, lsr_eq, asl_eq, inc_eq, dec_eq,
    trbBase_eq, tsbBase_eq]);
   (try simp only [u16_eq, add_one_eq, sub_one_eq, add_FF_eq, pageCross_eq, absA_toNat, absA_mod,
    Nat.mod_eq_of_lt (word_lt _ _), Nat.mod_eq_of_lt (relTarget_lt _ _), Nat.mod_mod]);
   (try simp only [stack_zpA, byteOf_self])))

macro "finish" : tactic => `(tactic|
  simp (config := { decide := true }) [SProg.rel_load_load, SProg.rel_store_store, SProg.rel_ret_ret, LeafRelS, expectedConsts, RegsEqMod,
    BitVec.add_assoc, zpA_mod, zpA_mod_add, absA_mod_add, setFlag_false, setFlag_true])

theorem mode_is_imm : ∀ m : Mode, (m == Mode.imm) = (match m with | .imm => true | _ => false) := by
  intro m; cases m <;> rfl

macro "defs" : tactic => `(tactic|
  simp only [handlerS, specOf, readOp, storeOp, modOp, modImplied, testBitsOp, Impl.rmbBase, Impl.smbBase,
    pushOp, pullOp, Impl.plp, regOp, Impl.jsr, Impl.rts, Impl.jmp, Impl.jmpIndirect6502, Impl.jmpIndirect65C02,
    Impl.jmpIndexXIndirect, Impl.bra, push, pop,
    getAddr, getAddrAbsolute, getAddrZeroPage, getAddrAbsoluteX, getAddrAbsoluteY, getAddrZeroPageX, getAddrZeroPageY,
    getAddrIndirect, getAddrIndirectJmp6502, getAddrRelative, getAddrIndirectIdxY, getAddrIdxIndirectX, getAddrZp65C02,
    getAddrIdxIndirect65C02, getAddressesBitBranchRelative,
    ReadOp.run, Src.get, Logical.apply,
    Spec.exec, Spec.ea, Spec.fetch, Spec.readSem, Spec.storeSrc, Spec.rmw, Spec.implied, Spec.branchCond,
    Spec.pushS, Spec.pullS, mode_is_imm])

/-- the statement proved for each handler -/
def Refines (model : CpuModel) (h : H) : Prop :=
  ∀ r : Regs, SProg.Rel LeafRelS (plainM (handlerS model h) r) (Spec.exec model (specOf h) r)

macro "std" : tactic => `(tactic| (intro r; defs; unfoldM; lemmas; finish))


theorem bt0 (v : Byte) : ((v &&& 0x01) != 0) = (v.toNat / 2 ^ ((0 : Fin 8) : Nat) % 2 == 1) := by revert v; decide
theorem bt1 (v : Byte) : ((v &&& 0x02) != 0) = (v.toNat / 2 ^ ((1 : Fin 8) : Nat) % 2 == 1) := by revert v; decide
theorem bt2 (v : Byte) : ((v &&& 0x04) != 0) = (v.toNat / 2 ^ ((2 : Fin 8) : Nat) % 2 == 1) := by revert v; decide
theorem bt3 (v : Byte) : ((v &&& 0x08) != 0) = (v.toNat / 2 ^ ((3 : Fin 8) : Nat) % 2 == 1) := by revert v; decide
theorem bt4 (v : Byte) : ((v &&& 0x10) != 0) = (v.toNat / 2 ^ ((4 : Fin 8) : Nat) % 2 == 1) := by revert v; decide
theorem bt5 (v : Byte) : ((v &&& 0x20) != 0) = (v.toNat / 2 ^ ((5 : Fin 8) : Nat) % 2 == 1) := by revert v; decide
theorem bt6 (v : Byte) : ((v &&& 0x40) != 0) = (v.toNat / 2 ^ ((6 : Fin 8) : Nat) % 2 == 1) := by revert v; decide
theorem bt7 (v : Byte) : ((v &&& 0x80) != 0) = (v.toNat / 2 ^ ((7 : Fin 8) : Nat) % 2 == 1) := by revert v; decide
theorem beq0_bne (v : Byte) : (v == 0) = !(v != 0) := by simp [bne]

/-- ADC handlers: case split on the specification's result (invalid BCD ↦ unspecified) -/
macro "adc_tac" : tactic => `(tactic|
  (intro r; defs; unfoldM; simp only [addBase_eq]; lemmas;
   simp only [SProg.rel_load_load];
   repeat' (first | intro _ | apply And.intro);
   all_goals (first | (finish; done) | (
     generalize Spec.adc _ _ _ _ = o;
     cases o <;> ((try simp only [Option.map, dec65]); (try unfoldM); (try finish))))))

macro "sbc_tac" : tactic => `(tactic|
  (intro r; defs; unfoldM; simp only [subBase_eq]; lemmas;
   simp only [SProg.rel_load_load];
   repeat' (first | intro _ | apply And.intro);
   all_goals (first | (finish; done) | (
     generalize Spec.sbc _ _ _ _ = o;
     cases o <;> ((try simp only [Option.map, dec65]); (try unfoldM); (try finish))))))

/-- conditional branches: case split on the tested flag -/
macro "br_tac" f:term : tactic => `(tactic|
  (intro r; simp only [handlerS, specOf, branchOnFlagClear, branchOnFlagSet, flagTest, flagTest'];
   defs; unfoldM;
   cases hc : flagSet r.p $f <;>
     (simp only [hc, cond, Bool.not_true, Bool.not_false]; (try unfoldM); lemmas; finish)))

/-- BBRn / BBSn: case split on the tested memory bit -/
macro "bb_tac" : tactic => `(tactic|
  (intro r; simp only [handlerS, specOf, branchOnBitClear, branchOnBitSet, getAddressesBitBranchRelative];
   defs; unfoldM; simp only [beq0_bne, bt0, bt1, bt2, bt3, bt4, bt5, bt6, bt7]; lemmas;
   simp only [SProg.rel_load_load];
   repeat' (first | intro _ | apply And.intro);
   all_goals (first | (finish; done) | (
     generalize (_ / _ % 2 == 1) = fb;
     cases fb <;> (simp; (try unfoldM); (try lemmas); (try finish))))))

end Verif
