import Verif.Proofs.Handlers
/-  GENERATED ONCE by a script, then hand-maintained: one refinement theorem per Go handler. -/
namespace Verif
open Verif.Impl Verif.Spec
set_option maxHeartbeats 400000

theorem h_andAbsolute (model : CpuModel) : Refines model .andAbsolute := by std
theorem h_andAbsoluteX (model : CpuModel) : Refines model .andAbsoluteX := by std
theorem h_andAbsoluteY (model : CpuModel) : Refines model .andAbsoluteY := by std
theorem h_andIdxIndirect (model : CpuModel) : Refines model .andIdxIndirect := by std
theorem h_andImmediate (model : CpuModel) : Refines model .andImmediate := by std
theorem h_andIndirect (model : CpuModel) : Refines model .andIndirect := by std
theorem h_andIndirectIdxY (model : CpuModel) : Refines model .andIndirectIdxY := by std
theorem h_andZeroPage (model : CpuModel) : Refines model .andZeroPage := by std
theorem h_andZeroPageX (model : CpuModel) : Refines model .andZeroPageX := by std
theorem h_bitAbsolute (model : CpuModel) : Refines model .bitAbsolute := by std
theorem h_bitAbsoluteX (model : CpuModel) : Refines model .bitAbsoluteX := by std
theorem h_bitZeroPage (model : CpuModel) : Refines model .bitZeroPage := by std
theorem h_bitZeroPageX (model : CpuModel) : Refines model .bitZeroPageX := by std
theorem h_cmpAbsolute (model : CpuModel) : Refines model .cmpAbsolute := by std
theorem h_cmpAbsoluteX (model : CpuModel) : Refines model .cmpAbsoluteX := by std
theorem h_cmpAbsoluteY (model : CpuModel) : Refines model .cmpAbsoluteY := by std
theorem h_cmpIdxXIndirect (model : CpuModel) : Refines model .cmpIdxXIndirect := by std
theorem h_cmpImmediate (model : CpuModel) : Refines model .cmpImmediate := by std
theorem h_cmpIndIdxY (model : CpuModel) : Refines model .cmpIndIdxY := by std
theorem h_cmpIndirect (model : CpuModel) : Refines model .cmpIndirect := by std
theorem h_cmpZeroPage (model : CpuModel) : Refines model .cmpZeroPage := by std
theorem h_cmpZeroPageX (model : CpuModel) : Refines model .cmpZeroPageX := by std
theorem h_cpxAbsolute (model : CpuModel) : Refines model .cpxAbsolute := by std
theorem h_cpxImmediate (model : CpuModel) : Refines model .cpxImmediate := by std
theorem h_cpxZeroPage (model : CpuModel) : Refines model .cpxZeroPage := by std
theorem h_cpyAbsolute (model : CpuModel) : Refines model .cpyAbsolute := by std
theorem h_cpyImmediate (model : CpuModel) : Refines model .cpyImmediate := by std
theorem h_cpyZeroPage (model : CpuModel) : Refines model .cpyZeroPage := by std
theorem h_eorAbsolute (model : CpuModel) : Refines model .eorAbsolute := by std
theorem h_eorAbsoluteX (model : CpuModel) : Refines model .eorAbsoluteX := by std
theorem h_eorAbsoluteY (model : CpuModel) : Refines model .eorAbsoluteY := by std
theorem h_eorIdxIndirect (model : CpuModel) : Refines model .eorIdxIndirect := by std
theorem h_eorImmediate (model : CpuModel) : Refines model .eorImmediate := by std
theorem h_eorIndirect (model : CpuModel) : Refines model .eorIndirect := by std
theorem h_eorIndirectIdxY (model : CpuModel) : Refines model .eorIndirectIdxY := by std
theorem h_eorZeroPage (model : CpuModel) : Refines model .eorZeroPage := by std
theorem h_eorZeroPageX (model : CpuModel) : Refines model .eorZeroPageX := by std
theorem h_ldaAbsolute (model : CpuModel) : Refines model .ldaAbsolute := by std
theorem h_ldaAbsoluteX (model : CpuModel) : Refines model .ldaAbsoluteX := by std
theorem h_ldaAbsoluteY (model : CpuModel) : Refines model .ldaAbsoluteY := by std
theorem h_ldaIdxIndirectX (model : CpuModel) : Refines model .ldaIdxIndirectX := by std
theorem h_ldaImmediate (model : CpuModel) : Refines model .ldaImmediate := by std
theorem h_ldaIndIdxY (model : CpuModel) : Refines model .ldaIndIdxY := by std
theorem h_ldaIndirect (model : CpuModel) : Refines model .ldaIndirect := by std
theorem h_ldaZeroPage (model : CpuModel) : Refines model .ldaZeroPage := by std
theorem h_ldaZeroPageIdxX (model : CpuModel) : Refines model .ldaZeroPageIdxX := by std
theorem h_ldxAbsolute (model : CpuModel) : Refines model .ldxAbsolute := by std
theorem h_ldxAbsoluteY (model : CpuModel) : Refines model .ldxAbsoluteY := by std
theorem h_ldxImmediate (model : CpuModel) : Refines model .ldxImmediate := by std
theorem h_ldxZeroPage (model : CpuModel) : Refines model .ldxZeroPage := by std
theorem h_ldxZeroPageIdxY (model : CpuModel) : Refines model .ldxZeroPageIdxY := by std
theorem h_ldyAbsolute (model : CpuModel) : Refines model .ldyAbsolute := by std
theorem h_ldyAbsoluteX (model : CpuModel) : Refines model .ldyAbsoluteX := by std
theorem h_ldyImmediate (model : CpuModel) : Refines model .ldyImmediate := by std
theorem h_ldyZeroPage (model : CpuModel) : Refines model .ldyZeroPage := by std
theorem h_ldyZeroPageIdxX (model : CpuModel) : Refines model .ldyZeroPageIdxX := by std
theorem h_oraAbsolute (model : CpuModel) : Refines model .oraAbsolute := by std
theorem h_oraAbsoluteX (model : CpuModel) : Refines model .oraAbsoluteX := by std
theorem h_oraAbsoluteY (model : CpuModel) : Refines model .oraAbsoluteY := by std
theorem h_oraIdxIndirect (model : CpuModel) : Refines model .oraIdxIndirect := by std
theorem h_oraImmediate (model : CpuModel) : Refines model .oraImmediate := by std
theorem h_oraIndirect (model : CpuModel) : Refines model .oraIndirect := by std
theorem h_oraIndirectIdxY (model : CpuModel) : Refines model .oraIndirectIdxY := by std
theorem h_oraZeroPage (model : CpuModel) : Refines model .oraZeroPage := by std
theorem h_oraZeroPageX (model : CpuModel) : Refines model .oraZeroPageX := by std

end Verif
