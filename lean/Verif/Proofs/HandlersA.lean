import Verif.Proofs.Handlers
/-  GENERATED ONCE by a script, then hand-maintained: one refinement theorem per Go handler. -/
namespace Verif
open Verif.Impl Verif.Spec
set_option maxHeartbeats 400000

theorem h_addAbsolute (model : CpuModel) : Refines model .addAbsolute := by adc_tac
theorem h_addAbsoluteX (model : CpuModel) : Refines model .addAbsoluteX := by adc_tac
theorem h_addAbsoluteY (model : CpuModel) : Refines model .addAbsoluteY := by adc_tac
theorem h_addIdxXIndirect (model : CpuModel) : Refines model .addIdxXIndirect := by adc_tac
theorem h_addImmediate (model : CpuModel) : Refines model .addImmediate := by adc_tac
theorem h_addIndirect (model : CpuModel) : Refines model .addIndirect := by adc_tac
theorem h_addIndirectIdxY (model : CpuModel) : Refines model .addIndirectIdxY := by adc_tac
theorem h_addZeroPage (model : CpuModel) : Refines model .addZeroPage := by adc_tac
theorem h_addZeroPageX (model : CpuModel) : Refines model .addZeroPageX := by adc_tac
theorem h_subAbsolute (model : CpuModel) : Refines model .subAbsolute := by sbc_tac
theorem h_subAbsoluteX (model : CpuModel) : Refines model .subAbsoluteX := by sbc_tac
theorem h_subAbsoluteY (model : CpuModel) : Refines model .subAbsoluteY := by sbc_tac
theorem h_subIdxXIndirect (model : CpuModel) : Refines model .subIdxXIndirect := by sbc_tac
theorem h_subImmediate (model : CpuModel) : Refines model .subImmediate := by sbc_tac
theorem h_subIndirect (model : CpuModel) : Refines model .subIndirect := by sbc_tac
theorem h_subIndirectIdxY (model : CpuModel) : Refines model .subIndirectIdxY := by sbc_tac
theorem h_subZeroPage (model : CpuModel) : Refines model .subZeroPage := by sbc_tac
theorem h_subZeroPageX (model : CpuModel) : Refines model .subZeroPageX := by sbc_tac

end Verif
