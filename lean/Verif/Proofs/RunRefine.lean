import Verif.Proofs.Step
import Verif.Proofs.RelRun
import Verif.Impl.Run
/-
  Runs of the implementation against runs of the specification (static: no regenerated facts).
  Everything is parametric in the opcode table, the cycle literals and a per-opcode refinement `hstep`; the
  properties instantiate it with the table and literals as they are now (C01_run, C02_total).
-/
namespace Verif.Proofs
open Verif Verif.Impl Verif.Spec

variable {σ : Type}

/-- the specification's run: stop reason, registers, memory and Σ cycles of the non-halting instructions after at
    most `n` instructions -/
def specLoopC (model : CpuModel) (bus : Bus σ) : Nat → Regs → σ → Nat → Stop × Regs × σ × Nat
  | 0, r, s, c => (.fuel, r, s, c)
  | n + 1, r, s, c =>
    match (Spec.stepDev knownDev model r).run bus r s with
    | (.error e, s') => (.error e, r, s', c)
    | (.ok none, s') => (.fuel, r, s', c)
    | (.ok (some (out, r')), s') => if out.halt then (.halted, r', s', c) else specLoopC model bus n r' s' (c + out.cycles)

/-- hypothesis of one step: the fetched opcode is a documented one and the path below it is exactly specified -/
def StepExact (model : CpuModel) (bus : Bus σ) (r : Regs) (s : σ) : Prop :=
  match bus.load s r.pc with
  | (.error _, _) => True
  | (.ok opc, s1) =>
    (Spec.decode model opc).isSome = true ∧
    SProg.pathExact bus r ((Spec.stepDev knownDev model r).next opc) s1 = true

/-- the executed path stays inside what the data sheets define exactly, and no executed instruction leaves
    don't-care bits in the registers -/
def RunExact (model : CpuModel) (bus : Bus σ) : Nat → Regs → σ → Prop
  | 0, _, _ => True
  | n + 1, r, s =>
    StepExact model bus r s ∧
    match (Spec.stepDev knownDev model r).run bus r s with
    | (.ok (some (out, r')), s') => out.pmask = 0 ∧ (out.halt = false → RunExact model bus n r' s')
    | _ => True

theorem regsEq_zero (a b : Regs) (h : RegsEqMod 0 a b) : a = b := by
  obtain ⟨h1, h2, h3, h4, h5, h6⟩ := h
  have h255 : ∀ x : Byte, x &&& ~~~(0 : Byte) = x := by decide
  rw [h255, h255] at h6
  cases a; cases b; simp_all

theorem spec_is_load (model : CpuModel) (r : Regs) : ∃ k', Spec.stepDev knownDev model r = .load r.pc k' := by
  simp only [Spec.stepDev]
  unfoldM
  exact ⟨_, rfl⟩

theorem impl_is_load (tbl : Byte → Option H) (kc : CycleConsts) (model : CpuModel) (r : Regs) :
    ∃ k, plainM (Impl.step tbl kc model) r = .load r.pc k := by
  simp only [plain_step_eval]
  obtain ⟨kk, hk⟩ := stepS_is_load tbl model r
  rw [hk]; exact ⟨_, rfl⟩

/-- what a leaf relation must say for the run theorem -/
def LeafGoodC (R : StepOut × Regs → Spec.Out × Regs → Prop) : Prop :=
  ∀ i s, R i s → i.1.halt = s.1.halt ∧ RegsEqMod s.1.pmask i.2 s.2 ∧ i.1.cycles = s.1.cycles

section
variable (tbl : Byte → Option H) (kc : CycleConsts) (model : CpuModel) (bus : Bus σ)
variable (R : StepOut × Regs → Spec.Out × Regs → Prop)

/-- ONE STEP ON A BUS -/
theorem step_outcome (hb : PlainBus bus)
    (hstep : ∀ r opc i, Spec.decode model opc = some i →
      SProg.Rel R ((plainM (Impl.step tbl kc model) r).next opc) ((Spec.stepDev knownDev model r).next opc))
    (r : Regs) (s : σ) (hx : StepExact model bus r s) :
    SProg.LeafOk R (((Impl.step tbl kc model r).run bus s).1.map some, ((Impl.step tbl kc model r).run bus s).2)
      ((Spec.stepDev knownDev model r).run bus r s) := by
  obtain ⟨k, hk⟩ := impl_is_load tbl kc model r
  obtain ⟨k', hk'⟩ := spec_is_load model r
  rw [← Prog.run_plain bus hb r (Impl.step tbl kc model r) s]
  have hk2 : (Impl.step tbl kc model r).plain = .load r.pc k := hk
  rw [hk2, hk']
  simp only [SProg.run]
  simp only [StepExact] at hx
  cases hl : bus.load s r.pc with
  | mk res s1 =>
    rw [hl] at hx
    cases res with
    | error e => simp [SProg.LeafOk]
    | ok opc =>
      simp only [] at hx ⊢
      obtain ⟨hdec, hpe⟩ := hx
      obtain ⟨i, hi⟩ := Option.isSome_iff_exists.1 hdec
      have hrel := hstep r opc i hi
      have hnextI : (plainM (Impl.step tbl kc model) r).next opc = k opc := by rw [hk]; rfl
      have hnextS : (Spec.stepDev knownDev model r).next opc = k' opc := by rw [hk']; rfl
      rw [hnextI, hnextS] at hrel
      rw [hnextS] at hpe
      exact SProg.Rel.run R bus r (k opc) (k' opc) s1 hrel hpe

/-- RUNS: same way of stopping, same registers, same memory, same cycle total -/
theorem run_refines_cycles (hb : PlainBus bus) (hR : LeafGoodC R)
    (hstep : ∀ r opc i, Spec.decode model opc = some i →
      SProg.Rel R ((plainM (Impl.step tbl kc model) r).next opc) ((Spec.stepDev knownDev model r).next opc)) :
    ∀ (n : Nat) (m : Machine σ), RunExact model bus n m.regs m.mem →
      (runLoop tbl kc model bus n m).1 = (specLoopC model bus n m.regs m.mem m.cycles).1 ∧
      (runLoop tbl kc model bus n m).2.regs = (specLoopC model bus n m.regs m.mem m.cycles).2.1 ∧
      (runLoop tbl kc model bus n m).2.mem = (specLoopC model bus n m.regs m.mem m.cycles).2.2.1 ∧
      (runLoop tbl kc model bus n m).2.cycles = (specLoopC model bus n m.regs m.mem m.cycles).2.2.2 := by
  intro n
  induction n with
  | zero => intro m _; exact ⟨rfl, rfl, rfl, rfl⟩
  | succ n ih =>
    intro m hx
    simp only [RunExact] at hx
    obtain ⟨hstepx, hrest⟩ := hx
    have ho := step_outcome tbl kc model bus R hb hstep m.regs m.mem hstepx
    simp only [runLoop, specLoopC]
    cases hi : (Impl.step tbl kc model m.regs).run bus m.mem with
    | mk ires imem =>
      cases hs : (Spec.stepDev knownDev model m.regs).run bus m.regs m.mem with
      | mk sres smem =>
        rw [hi, hs] at ho
        rw [hs] at hrest
        cases ires with
        | error e =>
          cases sres with
          | error e' =>
            simp only [Except.map, SProg.LeafOk] at ho
            obtain ⟨t1, t2⟩ := ho; subst t1; subst t2
            exact ⟨rfl, rfl, rfl, rfl⟩
          | ok so => cases so <;> simp [Except.map, SProg.LeafOk] at ho
        | ok iv =>
          cases sres with
          | error e' => simp [Except.map, SProg.LeafOk] at ho
          | ok so =>
            cases so with
            | none => simp [Except.map, SProg.LeafOk] at ho
            | some sv =>
              simp only [Except.map, SProg.LeafOk] at ho
              obtain ⟨hrel, hmem⟩ := ho
              subst hmem
              obtain ⟨hh, hregs, hcyc⟩ := hR _ _ hrel
              obtain ⟨out, r'⟩ := sv
              obtain ⟨iout, ir⟩ := iv
              simp only [] at hrest hh hregs hcyc ⊢
              obtain ⟨hpm, hcont⟩ := hrest
              rw [hpm] at hregs
              have hreq : ir = r' := regsEq_zero _ _ hregs
              subst hreq
              cases hhalt : out.halt with
              | true =>
                have : iout.halt = true := by rw [hh]; exact hhalt
                simp [this]
              | false =>
                have : iout.halt = false := by rw [hh]; exact hhalt
                simp only [this, Bool.false_eq_true, if_false]
                rw [hcyc]
                exact ih _ (hcont hhalt)

end

/-- the same without the cycle counter (does not need the cycle literals): stop reason, registers, memory -/
def specLoop (model : CpuModel) (bus : Bus σ) : Nat → Regs → σ → Stop × Regs × σ
  | 0, r, s => (.fuel, r, s)
  | n + 1, r, s =>
    match (Spec.stepDev knownDev model r).run bus r s with
    | (.error e, s') => (.error e, r, s')
    | (.ok none, s') => (.fuel, r, s')
    | (.ok (some (out, r')), s') => if out.halt then (.halted, r', s') else specLoop model bus n r' s'

def LeafGood (R : StepOut × Regs → Spec.Out × Regs → Prop) : Prop :=
  ∀ i s, R i s → i.1.halt = s.1.halt ∧ RegsEqMod s.1.pmask i.2 s.2

theorem run_refines {σ : Type} (tbl : Byte → Option H) (kc : CycleConsts) (model : CpuModel) (bus : Bus σ)
    (R : StepOut × Regs → Spec.Out × Regs → Prop) (hb : PlainBus bus) (hR : LeafGood R)
    (hstep : ∀ r opc i, Spec.decode model opc = some i →
      SProg.Rel R ((plainM (Impl.step tbl kc model) r).next opc) ((Spec.stepDev knownDev model r).next opc)) :
    ∀ (n : Nat) (m : Machine σ), RunExact model bus n m.regs m.mem →
      (runLoop tbl kc model bus n m).1 = (specLoop model bus n m.regs m.mem).1 ∧
      (runLoop tbl kc model bus n m).2.regs = (specLoop model bus n m.regs m.mem).2.1 ∧
      (runLoop tbl kc model bus n m).2.mem = (specLoop model bus n m.regs m.mem).2.2 := by
  intro n
  induction n with
  | zero => intro m _; exact ⟨rfl, rfl, rfl⟩
  | succ n ih =>
    intro m hx
    simp only [RunExact] at hx
    obtain ⟨hstepx, hrest⟩ := hx
    have ho := step_outcome tbl kc model bus R hb hstep m.regs m.mem hstepx
    simp only [runLoop, specLoop]
    cases hi : (Impl.step tbl kc model m.regs).run bus m.mem with
    | mk ires imem =>
      cases hs : (Spec.stepDev knownDev model m.regs).run bus m.regs m.mem with
      | mk sres smem =>
        rw [hi, hs] at ho
        rw [hs] at hrest
        cases ires with
        | error e =>
          cases sres with
          | error e' =>
            simp only [Except.map, SProg.LeafOk] at ho
            obtain ⟨t1, t2⟩ := ho; subst t1; subst t2
            exact ⟨rfl, rfl, rfl⟩
          | ok so => cases so <;> simp [Except.map, SProg.LeafOk] at ho
        | ok iv =>
          cases sres with
          | error e' => simp [Except.map, SProg.LeafOk] at ho
          | ok so =>
            cases so with
            | none => simp [Except.map, SProg.LeafOk] at ho
            | some sv =>
              simp only [Except.map, SProg.LeafOk] at ho
              obtain ⟨hrel, hmem⟩ := ho
              subst hmem
              obtain ⟨hh, hregs⟩ := hR _ _ hrel
              obtain ⟨out, r'⟩ := sv
              obtain ⟨iout, ir⟩ := iv
              simp only [] at hrest hh hregs ⊢
              obtain ⟨hpm, hcont⟩ := hrest
              rw [hpm] at hregs
              have hreq : ir = r' := regsEq_zero _ _ hregs
              subst hreq
              cases hhalt : out.halt with
              | true =>
                have : iout.halt = true := by rw [hh]; exact hhalt
                simp [this]
              | false =>
                have : iout.halt = false := by rw [hh]; exact hhalt
                simp only [this, Bool.false_eq_true, if_false]
                exact ih _ (hcont hhalt)

/-! ### the hypothesis is decidable on concrete machines -/

def stepExactB (model : CpuModel) (bus : Bus σ) (r : Regs) (s : σ) : Bool :=
  match bus.load s r.pc with
  | (.error _, _) => true
  | (.ok opc, s1) =>
    (Spec.decode model opc).isSome && SProg.pathExact bus r ((Spec.stepDev knownDev model r).next opc) s1

def runExactB (model : CpuModel) (bus : Bus σ) : Nat → Regs → σ → Bool
  | 0, _, _ => true
  | n + 1, r, s =>
    stepExactB model bus r s &&
    match (Spec.stepDev knownDev model r).run bus r s with
    | (.ok (some (out, r')), s') => out.pmask == 0 && (out.halt || runExactB model bus n r' s')
    | _ => true

theorem stepExact_of_bool (model : CpuModel) (bus : Bus σ) (r : Regs) (s : σ)
    (h : stepExactB model bus r s = true) : StepExact model bus r s := by
  unfold stepExactB at h
  unfold StepExact
  cases hl : bus.load s r.pc with
  | mk res s1 =>
    rw [hl] at h
    cases res with
    | error e => trivial
    | ok opc => simpa using h

theorem runExact_of_bool (model : CpuModel) (bus : Bus σ) :
    ∀ (n : Nat) (r : Regs) (s : σ), runExactB model bus n r s = true → RunExact model bus n r s := by
  intro n
  induction n with
  | zero => intro r s _; trivial
  | succ n ih =>
    intro r s h
    simp only [runExactB, Bool.and_eq_true] at h
    obtain ⟨h1, h2⟩ := h
    refine ⟨stepExact_of_bool model bus r s h1, ?_⟩
    cases hs : (Spec.stepDev knownDev model r).run bus r s with
    | mk sres smem =>
      rw [hs] at h2
      cases sres with
      | error e => trivial
      | ok so =>
        cases so with
        | none => trivial
        | some sv =>
          obtain ⟨out, r'⟩ := sv
          simp only [Bool.and_eq_true, beq_iff_eq, Bool.or_eq_true] at h2
          refine ⟨h2.1, ?_⟩
          intro hf
          rcases h2.2 with h3 | h3
          · rw [hf] at h3; cases h3
          · exact ih r' smem h3

/-- flat 64K RAM -/
def flatBus : Bus (Addr → Byte) where
  load s a := (.ok (s a), s)
  store s a v r := (.ok r, fun x => if x = a then v else s x)

theorem flatBus_plain : PlainBus flatBus :=
  ⟨fun s a v => (.ok (), fun x => if x = a then v else s x), fun _ _ _ _ => rfl⟩

end Verif.Proofs
