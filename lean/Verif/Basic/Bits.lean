/-
  Basic vocabulary: bytes, addresses, registers.
  Core Lean only (no Mathlib) so that the driver links as a `lean_exe`.
-/
namespace Verif

abbrev Byte := BitVec 8
abbrev Addr := BitVec 16

/-- The six architected registers of the 6502 (`cpu.CPU6502.{PC,SP,A,X,Y,Flags}`). -/
structure Regs where
  pc : Addr
  sp : Byte
  a  : Byte
  x  : Byte
  y  : Byte
  p  : Byte
deriving DecidableEq, Repr, Inhabited

inductive CpuModel where
  | m6502
  | m65C02
deriving DecidableEq, Repr, Inhabited

/-- Faults.  Every way in which the simulator stops other than the halting BRK. -/
inductive Err where
  | illegal (opc : Byte) (pc : Addr)   -- `panic("Illegal opcode ...")`
  | bcd                                -- `panic("Invalid BCD data")`
  | mem                                -- memory model raised a fault (index out of range in Go)
  | script                             -- trap handler / script raised an error
  | budget                             -- watchdog of the harness bus
deriving DecidableEq, Repr, Inhabited

/-- What a handler returns in Go: `(uint64, bool)` = cycles, halt. -/
structure StepOut where
  cycles : Nat
  halt   : Bool
deriving DecidableEq, Repr, Inhabited

-- status flag masks (`cpu.Flag_*`)
def flagN : Byte := 0x80
def flagV : Byte := 0x40
def flagB : Byte := 0x10
def flagD : Byte := 0x08
def flagI : Byte := 0x04
def flagZ : Byte := 0x02
def flagC : Byte := 0x01

end Verif
