import Verif.Basic.Bits
/-
  Interaction trees.

  `Prog α`  : what a Go handler does to `c.Mem`.  A store node carries the live registers and
              continues with possibly different ones: that is how a Lua trap which calls
              `set_pc`/`set_accu` in the middle of `STA trap` is modelled (the Go handler goes
              on with the same `*CPU6502` after `Mem.Store` returns).
  `SProg α` : specification trees, independent of any memory model.  A store node carries a
              mask of value bits the specification leaves open (bits 4/5 of a pushed P).
-/
namespace Verif

inductive Prog (α : Type) where
  | ret (a : α) : Prog α
  | fail (e : Err) : Prog α
  | load (a : Addr) (k : Byte → Prog α) : Prog α
  | store (a : Addr) (v : Byte) (r : Regs) (k : Regs → Prog α) : Prog α

inductive SProg (α : Type) where
  | ret (a : α) : SProg α
  | fail (e : Err) : SProg α
  | unspecified : SProg α
  | load (a : Addr) (k : Byte → SProg α) : SProg α
  | store (a : Addr) (v : Byte) (mask : Byte) (k : SProg α) : SProg α

namespace Prog

def bind : Prog α → (α → Prog β) → Prog β
  | ret a, f => f a
  | fail e, _ => fail e
  | load a k, f => load a (fun b => (k b).bind f)
  | store a v r k, f => store a v r (fun r' => (k r').bind f)

instance : Monad Prog where
  pure := ret
  bind := bind

/-- The tree as seen on a bus whose stores leave the registers alone. -/
def plain : Prog α → SProg α
  | ret a => .ret a
  | fail e => .fail e
  | load a k => .load a (fun b => (k b).plain)
  | store a v r k => .store a v 0 (k r).plain

end Prog

namespace SProg

def bind : SProg α → (α → SProg β) → SProg β
  | ret a, f => f a
  | fail e, _ => fail e
  | unspecified, _ => unspecified
  | load a k, f => load a (fun b => (k b).bind f)
  | store a v m k, f => store a v m (k.bind f)

instance : Monad SProg where
  pure := ret
  bind := bind

end SProg

/-- Implementation monad: registers threaded through an implementation tree. -/
abbrev M := StateT Regs Prog
/-- Specification monad. -/
abbrev SM := StateT Regs SProg

def ld (a : Addr) : M Byte := fun r => Prog.load a (fun b => Prog.ret (b, r))
def st (a : Addr) (v : Byte) : M Unit := fun r => Prog.store a v r (fun r' => Prog.ret ((), r'))
def failM {α : Type} (e : Err) : M α := fun _ => Prog.fail e

def sld (a : Addr) : SM Byte := fun r => SProg.load a (fun b => SProg.ret (b, r))
def sst (a : Addr) (v : Byte) (mask : Byte := 0) : SM Unit := fun r => SProg.store a v mask (SProg.ret ((), r))
def sfail {α : Type} (e : Err) : SM α := fun _ => SProg.fail e
def sunspec {α : Type} : SM α := fun _ => SProg.unspecified

/-- `plain` lifted to the state monads. -/
def plainM (m : M α) : SM α := fun r => (m r).plain

end Verif
