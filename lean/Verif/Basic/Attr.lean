import Lean.Meta.Tactic.Simp.RegisterCommand
/-- simp set of the regenerated cycle literals (`Generated/Cycles.lean`) -/
register_simp_attr cyc
