import Verif.Basic.Prog
/-
  Buses: interpretation of interaction trees against a memory.
  A bus is any state `σ` with `load` and `store`; a store may change the registers (traps).
  The memory state survives a fault (as the Go memory object does after a recovered panic).
-/
namespace Verif

structure Bus (σ : Type) where
  load : σ → Addr → Except Err Byte × σ
  store : σ → Addr → Byte → Regs → Except Err Regs × σ

namespace Prog

/-- run an implementation tree on a bus -/
def run {σ α : Type} (bus : Bus σ) : Prog α → σ → Except Err α × σ
  | .ret a, s => (.ok a, s)
  | .fail e, s => (.error e, s)
  | .load a k, s =>
    match bus.load s a with
    | (.error e, s') => (.error e, s')
    | (.ok b, s') => (k b).run bus s'
  | .store a v r k, s =>
    match bus.store s a v r with
    | (.error e, s') => (.error e, s')
    | (.ok r', s') => (k r').run bus s'

end Prog

namespace SProg

/-- run a specification tree; `.ok none` = the specification leaves the outcome open -/
def run {σ α : Type} (bus : Bus σ) (regs : Regs) : SProg α → σ → Except Err (Option α) × σ
  | .ret a, s => (.ok (some a), s)
  | .fail e, s => (.error e, s)
  | .unspecified, s => (.ok none, s)
  | .load a k, s =>
    match bus.load s a with
    | (.error e, s') => (.error e, s')
    | (.ok b, s') => (k b).run bus regs s'
  | .store a v _ k, s =>
    match bus.store s a v regs with
    | (.error e, s') => (.error e, s')
    | (.ok _, s') => k.run bus regs s'

end SProg

/-- one recorded bus event -/
structure Event where
  write : Bool
  addr : Addr
  val : Byte
deriving DecidableEq, Repr, Inhabited

end Verif
