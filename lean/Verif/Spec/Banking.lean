import Verif.Basic.Bits
/-
  TRUSTED SPECIFICATION of the memory models (README "Linear memory layout of simulated
  machines", the MemSpec documentation, and the hardware descriptions the property C04 names).
  Nat arithmetic only.

  A physical byte is a `Cell`: a region and an index in that region.  The banking registers of
  X16 and GeoRAM live in base RAM (cells of region `main`), those of the F256 are cells of their
  own (`memCtrl`, `ioCtrl`, `lut`).
-/
namespace Verif.Spec

inductive Region where
  | main      -- X16 base RAM / GeoRAM base 64K / F256 system RAM+flash(+expansion) / linear memory
  | ram       -- X16 banked RAM
  | rom       -- X16 banked ROM
  | geo       -- GeoRAM cartridge
  | io        -- F256 I/O banks
  | lut       -- F256 MMU look-up tables (4 x 8)
  | memCtrl   -- F256 MMU_MEM_CTRL ($0000)
  | ioCtrl    -- F256 MMU_IO_CTRL ($0001)
deriving DecidableEq, Repr, Inhabited

abbrev Cell := Region × Nat

inductive MemKind where
  | linear (size : Nat)        -- Linear16K/32K/48K/64K
  | x16 (ramBlocks : Nat)      -- XSixteen512K (64 banks of 8K) / XSixteen2048K (256)
  | geo (sectorBits : Nat)     -- GeoRam_512K (5) / GeoRam_2048K (7)
  | f256 (memSize : Nat)       -- F256_512K (0x100000) / F256_768K (0x140000)
deriving DecidableEq, Repr, Inhabited

/-- number of cells of each region of a machine -/
def regionSize : MemKind → Region → Nat
  | .linear n, .main => n
  | .x16 _, .main => 0xA000
  | .x16 b, .ram => b * 8192
  | .x16 _, .rom => 32 * 16384
  | .geo _, .main => 65536
  | .geo sb, .geo => 2 ^ (sb + 14)
  | .f256 n, .main => n
  | .f256 _, .io => 4 * 8192
  | .f256 _, .lut => 32
  | .f256 _, .memCtrl => 1
  | .f256 _, .ioCtrl => 1
  | _, _ => 0

def validCell (k : MemKind) (c : Cell) : Prop := c.2 < regionSize k c.1

/-- CPU view: the physical byte behind a 16-bit address under the banking state held in `d`
    (`d c` = current content of cell `c`); `none` = fault. -/
def docMap (k : MemKind) (d : Cell → Nat) (a : Nat) : Option Cell :=
  match k with
  | .linear n => if a < n then some (.main, a) else none
  | .x16 blocks =>
    if a < 0xA000 then some (.main, a)
    else if a < 0xC000 then
      -- 8K window at $A000, RAM bank register at $00; a bank the machine does not have is a fault
      let bank := d (.main, 0)
      if bank < blocks then some (.ram, bank * 8192 + (a - 0xA000)) else none
    else
      -- 16K window at $C000, 5-bit ROM bank register at $01
      some (.rom, (d (.main, 1) % 32) * 16384 + (a - 0xC000))
  | .geo sb =>
    if 0xDE00 ≤ a ∧ a < 0xDF00 then
      -- 256-byte window at $DE00; track register $DFFE (6 bits), sector register $DFFF (sb bits)
      let page := (d (.main, 0xDFFE) % 64) * 2 ^ sb + d (.main, 0xDFFF) % 2 ^ sb
      some (.geo, page * 256 + a % 256)
    else some (.main, a)
  | .f256 n =>
    let memCtrl := d (.memCtrl, 0)
    let ioCtrl := d (.ioCtrl, 0)
    let viaLut : Option Cell :=
      let phys := d (.lut, (memCtrl % 4) * 8 + a / 8192) * 8192 + a % 8192
      if phys < n then some (.main, phys) else none
    if a = 0 then some (.memCtrl, 0)
    else if a = 1 then some (.ioCtrl, 0)
    else if 8 ≤ a ∧ a ≤ 15 then
      -- LUT edit window, open iff bit 7 of MMU_MEM_CTRL; edited LUT = bits 5:4
      if memCtrl / 128 % 2 = 1 then some (.lut, (memCtrl / 16 % 4) * 8 + (a - 8)) else viaLut
    else if 0xC000 ≤ a ∧ a ≤ 0xDFFF then
      -- I/O window unless bit 2 of MMU_IO_CTRL; I/O bank = bits 1:0
      if ioCtrl / 4 % 2 = 0 then some (.io, (ioCtrl % 4) * 8192 + (a - 0xC000)) else viaLut
    else viaLut

/-- total size of the linear address space of a machine -/
def linTotal : MemKind → Nat
  | .linear _ => 65536        -- the linear view of a linear memory is the CPU view (mod 64K)
  | .x16 b => 0xA000 + b * 8192 + 32 * 16384
  | .geo sb => 65536 + 2 ^ (sb + 14)
  | .f256 n => n + 4 * 8192

/-- Linear view (README): the physical byte at linear address `l`, independent of the banking
    registers — except F256 addresses 0..15, which are the CPU-view aliases. -/
def linDoc (k : MemKind) (d : Cell → Nat) (l : Nat) : Option Cell :=
  match k with
  | .linear _ => docMap k d (l % 65536)
  | .x16 b =>
    if l < 0xA000 then some (.main, l)
    else if l < 0xA000 + b * 8192 then some (.ram, l - 0xA000)
    else if l < 0xA000 + b * 8192 + 32 * 16384 then some (.rom, l - (0xA000 + b * 8192))
    else none
  | .geo sb =>
    if l < 65536 then some (.main, l)
    else if l < 65536 + 2 ^ (sb + 14) then some (.geo, l - 65536)
    else none
  | .f256 n =>
    if l < 16 then docMap k d l
    else if l < n then some (.main, l)
    else if l < n + 4 * 8192 then some (.io, l - n)
    else none

/-- the linear address of a cell (README formula); F256 control cells have none -/
def toLin (k : MemKind) (c : Cell) : Option Nat :=
  match k, c with
  | .linear _, (.main, i) => some i
  | .x16 _, (.main, i) => some i
  | .x16 _, (.ram, i) => some (0xA000 + i)
  | .x16 b, (.rom, i) => some (0xA000 + b * 8192 + i)
  | .geo _, (.main, i) => some i
  | .geo _, (.geo, i) => some (65536 + i)
  | .f256 _, (.main, i) => some i
  | .f256 n, (.io, i) => some (n + i)
  | _, _ => none

end Verif.Spec
