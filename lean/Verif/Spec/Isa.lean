import Verif.Basic.Prog
/-
  TRUSTED SPECIFICATION of the instruction sets (MOS MCS6500 family programming manual,
  WDC W65C02S data sheet), written independently of how the Go code is organised:
  one decode table, one effective-address function per addressing mode, one semantic
  function per mnemonic, Nat/Int arithmetic with explicit `% 256` / `% 65536`.

  Conventions
  * A specification is a tree (`SM = StateT Regs SProg`): the sequence of bus accesses an
    instruction logically makes *is* the shape of its tree, the final registers and the cycle
    count sit at the leaves.
  * Results the data sheets leave undefined are expressed by masks: a `PMask` at the leaf
    (bits of P that are not constrained), a mask at a store node (bits 4/5 of the byte PHP
    pushes), `unspecified` for an invalid BCD operand.
  * The order of the reads *within* one instruction (e.g. pointer high byte before low byte) is
    not fixed by the data sheets' programming model; the trees follow the implementation's
    order.  A different order would be reported as model drift, not as a semantic violation.
  * RTI, STP, WAI and all unassigned codes decode to `none`.
-/
namespace Verif.Spec
open Verif

inductive Mn where
  | ADC | AND | ASL | BCC | BCS | BEQ | BIT | BMI | BNE | BPL | BRK | BVC | BVS | CLC | CLD | CLI
  | CLV | CMP | CPX | CPY | DEC | DEX | DEY | EOR | INC | INX | INY | JMP | JSR | LDA | LDX | LDY
  | LSR | NOP | ORA | PHA | PHP | PLA | PLP | ROL | ROR | RTS | SBC | SEC | SED | SEI | STA | STX
  | STY | TAX | TAY | TSX | TXA | TXS | TYA
  -- 65C02 additions
  | BRA | PHX | PHY | PLX | PLY | STZ | TRB | TSB
  | BBR (n : Fin 8) | BBS (n : Fin 8) | RMB (n : Fin 8) | SMB (n : Fin 8)
deriving DecidableEq, Repr

inductive Mode where
  | imp | acc | imm | zp | zpx | zpy | abs | absx | absy | ind | indx | indy | zpind | absindx
  | rel | zprel
deriving DecidableEq, Repr

/-- one line of the data-sheet opcode matrix: mnemonic, addressing mode, base cycles and whether
    one cycle is added when the indexed read crosses a page -/
structure Instr where
  mn : Mn
  mode : Mode
  cycles : Nat
  pagePenalty : Bool
deriving DecidableEq, Repr

def decode6502 (opc : Byte) : Option Instr :=
  match opc.toNat with
  | 0x00 => some ⟨.BRK, .imp, 7, false⟩
  | 0x01 => some ⟨.ORA, .indx, 6, false⟩
  | 0x05 => some ⟨.ORA, .zp, 3, false⟩
  | 0x06 => some ⟨.ASL, .zp, 5, false⟩
  | 0x08 => some ⟨.PHP, .imp, 3, false⟩
  | 0x09 => some ⟨.ORA, .imm, 2, false⟩
  | 0x0A => some ⟨.ASL, .acc, 2, false⟩
  | 0x0D => some ⟨.ORA, .abs, 4, false⟩
  | 0x0E => some ⟨.ASL, .abs, 6, false⟩
  | 0x10 => some ⟨.BPL, .rel, 2, false⟩
  | 0x11 => some ⟨.ORA, .indy, 5, true⟩
  | 0x15 => some ⟨.ORA, .zpx, 4, false⟩
  | 0x16 => some ⟨.ASL, .zpx, 6, false⟩
  | 0x18 => some ⟨.CLC, .imp, 2, false⟩
  | 0x19 => some ⟨.ORA, .absy, 4, true⟩
  | 0x1D => some ⟨.ORA, .absx, 4, true⟩
  | 0x1E => some ⟨.ASL, .absx, 7, false⟩
  | 0x20 => some ⟨.JSR, .abs, 6, false⟩
  | 0x21 => some ⟨.AND, .indx, 6, false⟩
  | 0x24 => some ⟨.BIT, .zp, 3, false⟩
  | 0x25 => some ⟨.AND, .zp, 3, false⟩
  | 0x26 => some ⟨.ROL, .zp, 5, false⟩
  | 0x28 => some ⟨.PLP, .imp, 4, false⟩
  | 0x29 => some ⟨.AND, .imm, 2, false⟩
  | 0x2A => some ⟨.ROL, .acc, 2, false⟩
  | 0x2C => some ⟨.BIT, .abs, 4, false⟩
  | 0x2D => some ⟨.AND, .abs, 4, false⟩
  | 0x2E => some ⟨.ROL, .abs, 6, false⟩
  | 0x30 => some ⟨.BMI, .rel, 2, false⟩
  | 0x31 => some ⟨.AND, .indy, 5, true⟩
  | 0x35 => some ⟨.AND, .zpx, 4, false⟩
  | 0x36 => some ⟨.ROL, .zpx, 6, false⟩
  | 0x38 => some ⟨.SEC, .imp, 2, false⟩
  | 0x39 => some ⟨.AND, .absy, 4, true⟩
  | 0x3D => some ⟨.AND, .absx, 4, true⟩
  | 0x3E => some ⟨.ROL, .absx, 7, false⟩
  | 0x41 => some ⟨.EOR, .indx, 6, false⟩
  | 0x45 => some ⟨.EOR, .zp, 3, false⟩
  | 0x46 => some ⟨.LSR, .zp, 5, false⟩
  | 0x48 => some ⟨.PHA, .imp, 3, false⟩
  | 0x49 => some ⟨.EOR, .imm, 2, false⟩
  | 0x4A => some ⟨.LSR, .acc, 2, false⟩
  | 0x4C => some ⟨.JMP, .abs, 3, false⟩
  | 0x4D => some ⟨.EOR, .abs, 4, false⟩
  | 0x4E => some ⟨.LSR, .abs, 6, false⟩
  | 0x50 => some ⟨.BVC, .rel, 2, false⟩
  | 0x51 => some ⟨.EOR, .indy, 5, true⟩
  | 0x55 => some ⟨.EOR, .zpx, 4, false⟩
  | 0x56 => some ⟨.LSR, .zpx, 6, false⟩
  | 0x58 => some ⟨.CLI, .imp, 2, false⟩
  | 0x59 => some ⟨.EOR, .absy, 4, true⟩
  | 0x5D => some ⟨.EOR, .absx, 4, true⟩
  | 0x5E => some ⟨.LSR, .absx, 7, false⟩
  | 0x60 => some ⟨.RTS, .imp, 6, false⟩
  | 0x61 => some ⟨.ADC, .indx, 6, false⟩
  | 0x65 => some ⟨.ADC, .zp, 3, false⟩
  | 0x66 => some ⟨.ROR, .zp, 5, false⟩
  | 0x68 => some ⟨.PLA, .imp, 4, false⟩
  | 0x69 => some ⟨.ADC, .imm, 2, false⟩
  | 0x6A => some ⟨.ROR, .acc, 2, false⟩
  | 0x6C => some ⟨.JMP, .ind, 5, false⟩
  | 0x6D => some ⟨.ADC, .abs, 4, false⟩
  | 0x6E => some ⟨.ROR, .abs, 6, false⟩
  | 0x70 => some ⟨.BVS, .rel, 2, false⟩
  | 0x71 => some ⟨.ADC, .indy, 5, true⟩
  | 0x75 => some ⟨.ADC, .zpx, 4, false⟩
  | 0x76 => some ⟨.ROR, .zpx, 6, false⟩
  | 0x78 => some ⟨.SEI, .imp, 2, false⟩
  | 0x79 => some ⟨.ADC, .absy, 4, true⟩
  | 0x7D => some ⟨.ADC, .absx, 4, true⟩
  | 0x7E => some ⟨.ROR, .absx, 7, false⟩
  | 0x81 => some ⟨.STA, .indx, 6, false⟩
  | 0x84 => some ⟨.STY, .zp, 3, false⟩
  | 0x85 => some ⟨.STA, .zp, 3, false⟩
  | 0x86 => some ⟨.STX, .zp, 3, false⟩
  | 0x88 => some ⟨.DEY, .imp, 2, false⟩
  | 0x8A => some ⟨.TXA, .imp, 2, false⟩
  | 0x8C => some ⟨.STY, .abs, 4, false⟩
  | 0x8D => some ⟨.STA, .abs, 4, false⟩
  | 0x8E => some ⟨.STX, .abs, 4, false⟩
  | 0x90 => some ⟨.BCC, .rel, 2, false⟩
  | 0x91 => some ⟨.STA, .indy, 6, false⟩
  | 0x94 => some ⟨.STY, .zpx, 4, false⟩
  | 0x95 => some ⟨.STA, .zpx, 4, false⟩
  | 0x96 => some ⟨.STX, .zpy, 4, false⟩
  | 0x98 => some ⟨.TYA, .imp, 2, false⟩
  | 0x99 => some ⟨.STA, .absy, 5, false⟩
  | 0x9A => some ⟨.TXS, .imp, 2, false⟩
  | 0x9D => some ⟨.STA, .absx, 5, false⟩
  | 0xA0 => some ⟨.LDY, .imm, 2, false⟩
  | 0xA1 => some ⟨.LDA, .indx, 6, false⟩
  | 0xA2 => some ⟨.LDX, .imm, 2, false⟩
  | 0xA4 => some ⟨.LDY, .zp, 3, false⟩
  | 0xA5 => some ⟨.LDA, .zp, 3, false⟩
  | 0xA6 => some ⟨.LDX, .zp, 3, false⟩
  | 0xA8 => some ⟨.TAY, .imp, 2, false⟩
  | 0xA9 => some ⟨.LDA, .imm, 2, false⟩
  | 0xAA => some ⟨.TAX, .imp, 2, false⟩
  | 0xAC => some ⟨.LDY, .abs, 4, false⟩
  | 0xAD => some ⟨.LDA, .abs, 4, false⟩
  | 0xAE => some ⟨.LDX, .abs, 4, false⟩
  | 0xB0 => some ⟨.BCS, .rel, 2, false⟩
  | 0xB1 => some ⟨.LDA, .indy, 5, true⟩
  | 0xB4 => some ⟨.LDY, .zpx, 4, false⟩
  | 0xB5 => some ⟨.LDA, .zpx, 4, false⟩
  | 0xB6 => some ⟨.LDX, .zpy, 4, false⟩
  | 0xB8 => some ⟨.CLV, .imp, 2, false⟩
  | 0xB9 => some ⟨.LDA, .absy, 4, true⟩
  | 0xBA => some ⟨.TSX, .imp, 2, false⟩
  | 0xBC => some ⟨.LDY, .absx, 4, true⟩
  | 0xBD => some ⟨.LDA, .absx, 4, true⟩
  | 0xBE => some ⟨.LDX, .absy, 4, true⟩
  | 0xC0 => some ⟨.CPY, .imm, 2, false⟩
  | 0xC1 => some ⟨.CMP, .indx, 6, false⟩
  | 0xC4 => some ⟨.CPY, .zp, 3, false⟩
  | 0xC5 => some ⟨.CMP, .zp, 3, false⟩
  | 0xC6 => some ⟨.DEC, .zp, 5, false⟩
  | 0xC8 => some ⟨.INY, .imp, 2, false⟩
  | 0xC9 => some ⟨.CMP, .imm, 2, false⟩
  | 0xCA => some ⟨.DEX, .imp, 2, false⟩
  | 0xCC => some ⟨.CPY, .abs, 4, false⟩
  | 0xCD => some ⟨.CMP, .abs, 4, false⟩
  | 0xCE => some ⟨.DEC, .abs, 6, false⟩
  | 0xD0 => some ⟨.BNE, .rel, 2, false⟩
  | 0xD1 => some ⟨.CMP, .indy, 5, true⟩
  | 0xD5 => some ⟨.CMP, .zpx, 4, false⟩
  | 0xD6 => some ⟨.DEC, .zpx, 6, false⟩
  | 0xD8 => some ⟨.CLD, .imp, 2, false⟩
  | 0xD9 => some ⟨.CMP, .absy, 4, true⟩
  | 0xDD => some ⟨.CMP, .absx, 4, true⟩
  | 0xDE => some ⟨.DEC, .absx, 7, false⟩
  | 0xE0 => some ⟨.CPX, .imm, 2, false⟩
  | 0xE1 => some ⟨.SBC, .indx, 6, false⟩
  | 0xE4 => some ⟨.CPX, .zp, 3, false⟩
  | 0xE5 => some ⟨.SBC, .zp, 3, false⟩
  | 0xE6 => some ⟨.INC, .zp, 5, false⟩
  | 0xE8 => some ⟨.INX, .imp, 2, false⟩
  | 0xE9 => some ⟨.SBC, .imm, 2, false⟩
  | 0xEA => some ⟨.NOP, .imp, 2, false⟩
  | 0xEC => some ⟨.CPX, .abs, 4, false⟩
  | 0xED => some ⟨.SBC, .abs, 4, false⟩
  | 0xEE => some ⟨.INC, .abs, 6, false⟩
  | 0xF0 => some ⟨.BEQ, .rel, 2, false⟩
  | 0xF1 => some ⟨.SBC, .indy, 5, true⟩
  | 0xF5 => some ⟨.SBC, .zpx, 4, false⟩
  | 0xF6 => some ⟨.INC, .zpx, 6, false⟩
  | 0xF8 => some ⟨.SED, .imp, 2, false⟩
  | 0xF9 => some ⟨.SBC, .absy, 4, true⟩
  | 0xFD => some ⟨.SBC, .absx, 4, true⟩
  | 0xFE => some ⟨.INC, .absx, 7, false⟩
  | _ => none

/-- entries the 65C02 adds to or changes in the NMOS table -/
def decode65C02Delta (opc : Byte) : Option Instr :=
  match opc.toNat with
  | 0x04 => some ⟨.TSB, .zp, 5, false⟩
  | 0x07 => some ⟨.RMB 0, .zp, 5, false⟩
  | 0x0C => some ⟨.TSB, .abs, 6, false⟩
  | 0x0F => some ⟨.BBR 0, .zprel, 5, false⟩
  | 0x12 => some ⟨.ORA, .zpind, 5, false⟩
  | 0x14 => some ⟨.TRB, .zp, 5, false⟩
  | 0x17 => some ⟨.RMB 1, .zp, 5, false⟩
  | 0x1A => some ⟨.INC, .acc, 2, false⟩
  | 0x1C => some ⟨.TRB, .abs, 6, false⟩
  | 0x1E => some ⟨.ASL, .absx, 6, true⟩
  | 0x1F => some ⟨.BBR 1, .zprel, 5, false⟩
  | 0x27 => some ⟨.RMB 2, .zp, 5, false⟩
  | 0x2F => some ⟨.BBR 2, .zprel, 5, false⟩
  | 0x32 => some ⟨.AND, .zpind, 5, false⟩
  | 0x34 => some ⟨.BIT, .zpx, 4, false⟩
  | 0x37 => some ⟨.RMB 3, .zp, 5, false⟩
  | 0x3A => some ⟨.DEC, .acc, 2, false⟩
  | 0x3C => some ⟨.BIT, .absx, 4, true⟩
  | 0x3E => some ⟨.ROL, .absx, 6, true⟩
  | 0x3F => some ⟨.BBR 3, .zprel, 5, false⟩
  | 0x47 => some ⟨.RMB 4, .zp, 5, false⟩
  | 0x4F => some ⟨.BBR 4, .zprel, 5, false⟩
  | 0x52 => some ⟨.EOR, .zpind, 5, false⟩
  | 0x57 => some ⟨.RMB 5, .zp, 5, false⟩
  | 0x5A => some ⟨.PHY, .imp, 3, false⟩
  | 0x5E => some ⟨.LSR, .absx, 6, true⟩
  | 0x5F => some ⟨.BBR 5, .zprel, 5, false⟩
  | 0x64 => some ⟨.STZ, .zp, 3, false⟩
  | 0x67 => some ⟨.RMB 6, .zp, 5, false⟩
  | 0x6C => some ⟨.JMP, .ind, 6, false⟩
  | 0x6F => some ⟨.BBR 6, .zprel, 5, false⟩
  | 0x72 => some ⟨.ADC, .zpind, 5, false⟩
  | 0x74 => some ⟨.STZ, .zpx, 4, false⟩
  | 0x77 => some ⟨.RMB 7, .zp, 5, false⟩
  | 0x7A => some ⟨.PLY, .imp, 4, false⟩
  | 0x7C => some ⟨.JMP, .absindx, 6, false⟩
  | 0x7E => some ⟨.ROR, .absx, 6, true⟩
  | 0x7F => some ⟨.BBR 7, .zprel, 5, false⟩
  | 0x80 => some ⟨.BRA, .rel, 3, false⟩
  | 0x87 => some ⟨.SMB 0, .zp, 5, false⟩
  | 0x89 => some ⟨.BIT, .imm, 2, false⟩
  | 0x8F => some ⟨.BBS 0, .zprel, 5, false⟩
  | 0x92 => some ⟨.STA, .zpind, 5, false⟩
  | 0x97 => some ⟨.SMB 1, .zp, 5, false⟩
  | 0x9C => some ⟨.STZ, .abs, 4, false⟩
  | 0x9E => some ⟨.STZ, .absx, 5, false⟩
  | 0x9F => some ⟨.BBS 1, .zprel, 5, false⟩
  | 0xA7 => some ⟨.SMB 2, .zp, 5, false⟩
  | 0xAF => some ⟨.BBS 2, .zprel, 5, false⟩
  | 0xB2 => some ⟨.LDA, .zpind, 5, false⟩
  | 0xB7 => some ⟨.SMB 3, .zp, 5, false⟩
  | 0xBF => some ⟨.BBS 3, .zprel, 5, false⟩
  | 0xC7 => some ⟨.SMB 4, .zp, 5, false⟩
  | 0xCF => some ⟨.BBS 4, .zprel, 5, false⟩
  | 0xD2 => some ⟨.CMP, .zpind, 5, false⟩
  | 0xD7 => some ⟨.SMB 5, .zp, 5, false⟩
  | 0xDA => some ⟨.PHX, .imp, 3, false⟩
  | 0xDF => some ⟨.BBS 5, .zprel, 5, false⟩
  | 0xE7 => some ⟨.SMB 6, .zp, 5, false⟩
  | 0xEF => some ⟨.BBS 6, .zprel, 5, false⟩
  | 0xF2 => some ⟨.SBC, .zpind, 5, false⟩
  | 0xF7 => some ⟨.SMB 7, .zp, 5, false⟩
  | 0xFA => some ⟨.PLX, .imp, 4, false⟩
  | 0xFF => some ⟨.BBS 7, .zprel, 5, false⟩
  | _ => none

def decode : CpuModel → Byte → Option Instr
  | .m6502, opc => decode6502 opc
  | .m65C02, opc =>
    match decode65C02Delta opc with
    | some i => some i
    | none => decode6502 opc

-- ---------------------------------------------------------------------------------------
-- arithmetic vocabulary

def zpA (n : Nat) : Addr := BitVec.ofNat 16 (n % 256)
def absA (n : Nat) : Addr := BitVec.ofNat 16 (n % 65536)
def byteOf (n : Nat) : Byte := BitVec.ofNat 8 (n % 256)
def word (lo hi : Byte) : Nat := hi.toNat * 256 + lo.toNat
def pageOf (n : Nat) : Nat := n / 256

def setFlag (p : Byte) (f : Byte) (b : Bool) : Byte := if b then p ||| f else p &&& ~~~f
def flagSet (p : Byte) (f : Byte) : Bool := (p &&& f) != 0
def carryIn (p : Byte) : Nat := if flagSet p flagC then 1 else 0

/-- N and Z "of r": bit 7 of r, r = 0 -/
def setNZ (p : Byte) (v : Byte) : Byte :=
  setFlag (setFlag p flagZ (v.toNat == 0)) flagN (decide (v.toNat ≥ 128))

-- ---------------------------------------------------------------------------------------
-- operand access

/-- read the byte at PC and advance PC -/
def fetch : SM Byte := do
  let r ← get
  let b ← sld r.pc
  set { r with pc := r.pc + 1 }
  pure b

structure EA where
  addr : Addr
  crossed : Bool
deriving DecidableEq, Repr

/-- effective address of a data operand.  Zero-page indexing wraps within page 0, pointer high
    bytes come from (ptr+1) mod 256, absolute indexing wraps at 64K; `crossed` tells whether
    indexing left the page of the un-indexed address. -/
def ea : Mode → SM EA
  | .imm => do
    let r ← get
    set { r with pc := r.pc + 1 }
    pure ⟨r.pc, false⟩
  | .zp => do
    let z ← fetch
    pure ⟨zpA z.toNat, false⟩
  | .zpx => do
    let z ← fetch
    pure ⟨zpA (z.toNat + (← get).x.toNat), false⟩
  | .zpy => do
    let z ← fetch
    pure ⟨zpA (z.toNat + (← get).y.toNat), false⟩
  | .abs => do
    let lo ← fetch
    let hi ← fetch
    pure ⟨absA (word lo hi), false⟩
  | .absx => do
    let lo ← fetch
    let hi ← fetch
    let base := word lo hi
    let e := (base + (← get).x.toNat) % 65536
    pure ⟨absA e, pageOf base != pageOf e⟩
  | .absy => do
    let lo ← fetch
    let hi ← fetch
    let base := word lo hi
    let e := (base + (← get).y.toNat) % 65536
    pure ⟨absA e, pageOf base != pageOf e⟩
  | .indx => do
    let z ← fetch
    let ptr := z.toNat + (← get).x.toNat
    let hi ← sld (zpA (ptr + 1))
    let lo ← sld (zpA ptr)
    pure ⟨absA (word lo hi), false⟩
  | .indy => do
    let z ← fetch
    let hi ← sld (zpA (z.toNat + 1))
    let lo ← sld (zpA z.toNat)
    let base := word lo hi
    let e := (base + (← get).y.toNat) % 65536
    pure ⟨absA e, pageOf base != pageOf e⟩
  | .zpind => do
    let z ← fetch
    let hi ← sld (zpA (z.toNat + 1))
    let lo ← sld (zpA z.toNat)
    pure ⟨absA (word lo hi), false⟩
  -- not data-operand modes
  | .imp | .acc | .ind | .absindx | .rel | .zprel => sunspec

-- ---------------------------------------------------------------------------------------
-- ALU semantics (pure).  `PMask` = bits of P the data sheets leave undefined.

abbrev PMask := Byte

def validBcd (b : Byte) : Bool := b.toNat % 16 ≤ 9 && b.toNat / 16 ≤ 9
def bcdVal (b : Byte) : Nat := (b.toNat / 16) * 10 + b.toNat % 16
def toBcd (n : Nat) : Byte := byteOf ((n / 10) * 16 + n % 10)

/-- ADC.  `none` = invalid BCD operand in decimal mode (unconstrained). -/
def adc (model : CpuModel) (p a m : Byte) : Option (Byte × Byte × PMask) :=
  let c := carryIn p
  if !flagSet p flagD then
    let s := a.toNat + m.toNat + c
    let si := a.toInt + m.toInt + (c : Int)
    let r := byteOf s
    let p := setFlag (setNZ p r) flagC (decide (s ≥ 256))
    let p := setFlag p flagV (decide (si < -128 ∨ si > 127))
    some (r, p, 0)
  else if validBcd a && validBcd m then
    let s := bcdVal a + bcdVal m + c
    let r := toBcd (s % 100)
    let p := setFlag (setNZ p r) flagC (decide (s ≥ 100))
    some (r, p, match model with | .m6502 => flagN ||| flagZ ||| flagV | .m65C02 => flagV)
  else none

/-- SBC: A − M − (1 − C). -/
def sbc (model : CpuModel) (p a m : Byte) : Option (Byte × Byte × PMask) :=
  let b : Int := 1 - (carryIn p : Int)
  if !flagSet p flagD then
    let d : Int := (a.toNat : Int) - (m.toNat : Int) - b
    let di : Int := a.toInt - m.toInt - b
    let r := byteOf (d % 256).toNat
    let p := setFlag (setNZ p r) flagC (decide (d ≥ 0))
    let p := setFlag p flagV (decide (di < -128 ∨ di > 127))
    some (r, p, 0)
  else if validBcd a && validBcd m then
    let d : Int := (bcdVal a : Int) - (bcdVal m : Int) - b
    let r := toBcd (d % 100).toNat
    let p := setFlag (setNZ p r) flagC (decide (d ≥ 0))
    some (r, p, match model with | .m6502 => flagN ||| flagZ ||| flagV | .m65C02 => flagV)
  else none

/-- CMP/CPX/CPY: C = R ≥ M, Z = R = M, N of (R − M) mod 256 -/
def cmp (p r m : Byte) : Byte :=
  let d := byteOf (r.toNat + 256 - m.toNat)
  let p := setFlag p flagC (decide (r.toNat ≥ m.toNat))
  let p := setFlag p flagZ (decide (r.toNat = m.toNat))
  setFlag p flagN (decide (d.toNat ≥ 128))

/-- BIT: Z = (A ∧ M) = 0; N, V = bits 7, 6 of M — except `BIT #imm` (65C02): Z only -/
def bit (imm : Bool) (p a m : Byte) : Byte :=
  let p := setFlag p flagZ ((a &&& m).toNat == 0)
  if imm then p
  else setFlag (setFlag p flagN (decide (m.toNat ≥ 128))) flagV (m.toNat / 64 % 2 == 1)

/-- read-modify-write operations: new value, new P -/
def rmw (mn : Mn) (p a m : Byte) : Option (Byte × Byte) :=
  let c := carryIn p
  match mn with
  | .ASL => let v := byteOf (m.toNat * 2); some (v, setNZ (setFlag p flagC (decide (m.toNat ≥ 128))) v)
  | .LSR => let v := byteOf (m.toNat / 2); some (v, setNZ (setFlag p flagC (m.toNat % 2 == 1)) v)
  | .ROL => let v := byteOf (m.toNat * 2 + c); some (v, setNZ (setFlag p flagC (decide (m.toNat ≥ 128))) v)
  | .ROR => let v := byteOf (m.toNat / 2 + c * 128); some (v, setNZ (setFlag p flagC (m.toNat % 2 == 1)) v)
  | .INC => let v := byteOf (m.toNat + 1); some (v, setNZ p v)
  | .DEC => let v := byteOf (m.toNat + 255); some (v, setNZ p v)
  | .TRB => some (m &&& ~~~a, setFlag p flagZ ((a &&& m).toNat == 0))
  | .TSB => some (m ||| a, setFlag p flagZ ((a &&& m).toNat == 0))
  | .RMB n => some (m &&& ~~~(1#8 <<< n.val), p)
  | .SMB n => some (m ||| (1#8 <<< n.val), p)
  | _ => none

/-- instructions that read one operand and update registers: new registers, extra cycles, P mask -/
def readSem (model : CpuModel) (mn : Mn) (imm : Bool) (r : Regs) (m : Byte) : Option (Option (Regs × Nat × PMask)) :=
  let dec65 : Nat := if model == .m65C02 && flagSet r.p flagD then 1 else 0
  match mn with
  | .LDA => some (some ({ r with a := m, p := setNZ r.p m }, 0, 0))
  | .LDX => some (some ({ r with x := m, p := setNZ r.p m }, 0, 0))
  | .LDY => some (some ({ r with y := m, p := setNZ r.p m }, 0, 0))
  | .AND => let v := r.a &&& m; some (some ({ r with a := v, p := setNZ r.p v }, 0, 0))
  | .ORA => let v := r.a ||| m; some (some ({ r with a := v, p := setNZ r.p v }, 0, 0))
  | .EOR => let v := r.a ^^^ m; some (some ({ r with a := v, p := setNZ r.p v }, 0, 0))
  | .CMP => some (some ({ r with p := cmp r.p r.a m }, 0, 0))
  | .CPX => some (some ({ r with p := cmp r.p r.x m }, 0, 0))
  | .CPY => some (some ({ r with p := cmp r.p r.y m }, 0, 0))
  | .BIT => some (some ({ r with p := bit imm r.p r.a m }, 0, 0))
  | .ADC => some ((adc model r.p r.a m).map fun (v, p, mask) => ({ r with a := v, p := p }, dec65, mask))
  | .SBC => some ((sbc model r.p r.a m).map fun (v, p, mask) => ({ r with a := v, p := p }, dec65, mask))
  | _ => none

-- ---------------------------------------------------------------------------------------
-- instruction semantics

/-- leaf of a specification tree: cycles, halt, and the mask of unconstrained P bits -/
structure Out where
  cycles : Nat
  halt : Bool
  pmask : PMask := 0
deriving DecidableEq, Repr

def stackA (sp : Byte) : Addr := BitVec.ofNat 16 (0x100 + sp.toNat)

/-- store at $0100+SP, then SP − 1 mod 256 -/
def pushS (v : Byte) (mask : Byte := 0) : SM Unit := do
  let r ← get
  sst (stackA r.sp) v mask
  set { r with sp := byteOf (r.sp.toNat + 255) }

/-- SP + 1 mod 256, then load -/
def pullS : SM Byte := do
  let r ← get
  let sp := byteOf (r.sp.toNat + 1)
  set { r with sp := sp }
  sld (stackA sp)

def storeSrc (mn : Mn) (r : Regs) : Option Byte :=
  match mn with
  | .STA => some r.a | .STX => some r.x | .STY => some r.y | .STZ => some 0 | _ => none

def branchCond (mn : Mn) (p : Byte) : Option Bool :=
  match mn with
  | .BPL => some (!flagSet p flagN) | .BMI => some (flagSet p flagN)
  | .BNE => some (!flagSet p flagZ) | .BEQ => some (flagSet p flagZ)
  | .BCC => some (!flagSet p flagC) | .BCS => some (flagSet p flagC)
  | .BVC => some (!flagSet p flagV) | .BVS => some (flagSet p flagV)
  | .BRA => some true
  | _ => none

/-- (address of the next instruction + signed offset) mod 65536 -/
def relTarget (next : Addr) (off : Byte) : Nat := (((next.toNat : Int) + off.toInt) % 65536).toNat

def implied (mn : Mn) (r : Regs) : Option Regs :=
  match mn with
  | .CLC => some { r with p := setFlag r.p flagC false }
  | .SEC => some { r with p := setFlag r.p flagC true }
  | .CLD => some { r with p := setFlag r.p flagD false }
  | .SED => some { r with p := setFlag r.p flagD true }
  | .CLI => some { r with p := setFlag r.p flagI false }
  | .SEI => some { r with p := setFlag r.p flagI true }
  | .CLV => some { r with p := setFlag r.p flagV false }
  | .TAX => some { r with x := r.a, p := setNZ r.p r.a }
  | .TAY => some { r with y := r.a, p := setNZ r.p r.a }
  | .TXA => some { r with a := r.x, p := setNZ r.p r.x }
  | .TYA => some { r with a := r.y, p := setNZ r.p r.y }
  | .TSX => some { r with x := r.sp, p := setNZ r.p r.sp }
  | .TXS => some { r with sp := r.x }
  | .INX => let v := byteOf (r.x.toNat + 1); some { r with x := v, p := setNZ r.p v }
  | .INY => let v := byteOf (r.y.toNat + 1); some { r with y := v, p := setNZ r.p v }
  | .DEX => let v := byteOf (r.x.toNat + 255); some { r with x := v, p := setNZ r.p v }
  | .DEY => let v := byteOf (r.y.toNat + 255); some { r with y := v, p := setNZ r.p v }
  | .NOP => some r
  | _ => none

/-- Semantics of one decoded instruction, entered with PC pointing just behind the opcode. -/
def exec (model : CpuModel) (i : Instr) : SM Out :=
  match i.mn, i.mode with
  -- the simulator's halt instruction: nothing changes
  | .BRK, .imp => pure ⟨i.cycles, true, 0⟩
  -- loads, ALU and compare instructions
  | .LDA, _ | .LDX, _ | .LDY, _ | .AND, _ | .ORA, _ | .EOR, _ | .CMP, _ | .CPX, _ | .CPY, _
  | .BIT, _ | .ADC, _ | .SBC, _ => do
    let e ← ea i.mode
    let m ← sld e.addr
    let r ← get
    match readSem model i.mn (i.mode == .imm) r m with
    | some (some (r', extra, mask)) => do
      set r'
      pure ⟨i.cycles + extra + (if i.pagePenalty && e.crossed then 1 else 0), false, mask⟩
    | _ => sunspec
  -- stores
  | .STA, _ | .STX, _ | .STY, _ | .STZ, _ => do
    let e ← ea i.mode
    match storeSrc i.mn (← get) with
    | some v => do sst e.addr v; pure ⟨i.cycles, false, 0⟩
    | none => sunspec
  -- read-modify-write on the accumulator
  | .ASL, .acc | .LSR, .acc | .ROL, .acc | .ROR, .acc | .INC, .acc | .DEC, .acc => do
    let r ← get
    match rmw i.mn r.p r.a r.a with
    | some (v, p) => do set { r with a := v, p := p }; pure ⟨i.cycles, false, 0⟩
    | none => sunspec
  -- read-modify-write on memory: one read and one write of the effective address
  | .ASL, _ | .LSR, _ | .ROL, _ | .ROR, _ | .INC, _ | .DEC, _ | .TRB, _ | .TSB, _
  | .RMB _, _ | .SMB _, _ => do
    let e ← ea i.mode
    let m ← sld e.addr
    let r ← get
    match rmw i.mn r.p r.a m with
    | some (v, p) => do
      sst e.addr v
      set { r with p := p }
      pure ⟨i.cycles + (if i.pagePenalty && e.crossed then 1 else 0), false, 0⟩
    | none => sunspec
  -- conditional and unconditional relative branches
  | .BPL, .rel | .BMI, .rel | .BNE, .rel | .BEQ, .rel | .BCC, .rel | .BCS, .rel | .BVC, .rel
  | .BVS, .rel | .BRA, .rel => do
    let r ← get
    match branchCond i.mn r.p with
    | some true => do
      let off ← fetch
      let next := (← get).pc
      let t := relTarget next off
      set { (← get) with pc := absA t }
      -- taken: +1 (already in the base count for BRA), +1 more when landing on another page
      pure ⟨(if i.mn == .BRA then i.cycles else i.cycles + 1) + (if pageOf next.toNat != pageOf t then 1 else 0), false, 0⟩
    | some false => do
      -- not taken: the offset byte is skipped, not read
      set { r with pc := r.pc + 1 }
      pure ⟨i.cycles, false, 0⟩
    | none => sunspec
  -- BBRn / BBSn zp, rel
  | .BBR n, .zprel | .BBS n, .zprel => do
    let z ← fetch
    let off ← fetch
    let m ← sld (zpA z.toNat)
    let bitSet := m.toNat / 2 ^ n.val % 2 == 1
    let taken := match i.mn with | .BBS _ => bitSet | _ => !bitSet
    if taken then
      let next := (← get).pc
      let t := relTarget next off
      set { (← get) with pc := absA t }
      pure ⟨i.cycles + 1 + (if pageOf next.toNat != pageOf t then 1 else 0), false, 0⟩
    else
      pure ⟨i.cycles, false, 0⟩
  -- jumps and subroutines
  | .JMP, .abs => do
    let lo ← fetch
    let hi ← fetch
    set { (← get) with pc := absA (word lo hi) }
    pure ⟨i.cycles, false, 0⟩
  | .JMP, .ind => do
    let lo ← fetch
    let hi ← fetch
    let ptr := word lo hi
    -- NMOS: the pointer's high byte is fetched from the same page ($xxFF → $xx00)
    let ptrHi := match model with
      | .m6502 => hi.toNat * 256 + (lo.toNat + 1) % 256
      | .m65C02 => (ptr + 1) % 65536
    let h ← sld (absA ptrHi)
    let l ← sld (absA ptr)
    set { (← get) with pc := absA (word l h) }
    pure ⟨i.cycles, false, 0⟩
  | .JMP, .absindx => do
    let lo ← fetch
    let hi ← fetch
    let ptr := (word lo hi + (← get).x.toNat) % 65536
    let h ← sld (absA (ptr + 1))
    let l ← sld (absA ptr)
    set { (← get) with pc := absA (word l h) }
    pure ⟨i.cycles, false, 0⟩
  | .JSR, .abs => do
    let lo ← fetch
    -- the return address pushed is the address of the instruction's third byte
    let ret := (← get).pc
    let hi ← sld ret
    pushS (byteOf (ret.toNat / 256))
    pushS (byteOf ret.toNat)
    set { (← get) with pc := absA (word lo hi) }
    pure ⟨i.cycles, false, 0⟩
  | .RTS, .imp => do
    let lo ← pullS
    let hi ← pullS
    set { (← get) with pc := absA (word lo hi + 1) }
    pure ⟨i.cycles, false, 0⟩
  -- stack
  | .PHA, .imp => do pushS (← get).a; pure ⟨i.cycles, false, 0⟩
  | .PHX, .imp => do pushS (← get).x; pure ⟨i.cycles, false, 0⟩
  | .PHY, .imp => do pushS (← get).y; pure ⟨i.cycles, false, 0⟩
  -- bits 4 and 5 of the pushed status byte are not constrained
  | .PHP, .imp => do pushS (← get).p 0x30; pure ⟨i.cycles, false, 0⟩
  | .PLA, .imp => do let v ← pullS; set { (← get) with a := v, p := setNZ (← get).p v }; pure ⟨i.cycles, false, 0⟩
  | .PLX, .imp => do let v ← pullS; set { (← get) with x := v, p := setNZ (← get).p v }; pure ⟨i.cycles, false, 0⟩
  | .PLY, .imp => do let v ← pullS; set { (← get) with y := v, p := setNZ (← get).p v }; pure ⟨i.cycles, false, 0⟩
  -- bits 4 and 5 of the pulled status byte are not constrained
  | .PLP, .imp => do let v ← pullS; set { (← get) with p := v }; pure ⟨i.cycles, false, 0x30⟩
  -- everything that only touches registers
  | _, .imp => do
    match implied i.mn (← get) with
    | some r' => do set r'; pure ⟨i.cycles, false, 0⟩
    | none => sunspec
  | _, _ => sunspec

/-- Known deviations: extra P bits left unconstrained for one (model, opcode).
    `noDev` is the full specification. -/
abbrev Dev := CpuModel → Byte → PMask
def noDev : Dev := fun _ _ => 0

/-- one instruction: fetch the opcode, decode; an undecodable opcode is an error that leaves
    every register as it was (PC still pointing at the opcode) -/
def stepDev (dev : Dev) (model : CpuModel) : SM Out := do
  let r ← get
  let opc ← sld r.pc
  match decode model opc with
  | none => sfail (.illegal opc r.pc)
  | some i => do
    set { r with pc := r.pc + 1 }
    let out ← exec model i
    pure { out with pmask := out.pmask ||| dev model opc }

/-- the specification of one instruction step -/
def step (model : CpuModel) : SM Out := stepDev noDev model

end Verif.Spec
